pub mod c09;
pub mod c10;
pub mod c11;
pub mod common;

use crate::harness::{Stats, Tier, Violation};
use serde::Serialize;

/// Runs `f`; a panic raised from decoder code (location under /repo) becomes a violation of the
/// property at hand (no listed property can hold for a call that panics). Panics from harness code
/// propagate (they are harness errors, exit 2).
pub fn isolate<S: Serialize>(
    property: &str,
    check: &str,
    seed: u64,
    sc: &S,
    stats: &mut Stats,
    f: impl FnOnce(&mut Stats) -> Result<(), Violation>,
) -> Result<(), Violation> {
    let r = std::panic::catch_unwind(std::panic::AssertUnwindSafe(|| f(stats)));
    match r {
        Ok(r) => r,
        Err(p) => {
            let loc = crate::harness::last_panic_location();
            if loc.starts_with("/repo/") || loc.contains("/rustc/") || loc.contains("/.cargo/registry/") {
                Err(Violation {
                    property: property.into(),
                    check: check.into(),
                    class: format!("panic:{}", loc.trim_start_matches("/repo/crates/")),
                    detail: format!("decoder panicked at {loc}: {}", crate::harness::panic_message(&*p)),
                    seed,
                    scenario: serde_json::to_value(sc).unwrap(),
                })
            } else {
                std::panic::resume_unwind(p)
            }
        }
    }
}

macro_rules! dispatch {
    ($($name:literal => $m:ident, $prop:literal;)*) => {
        /// Runs one seeded simulation of `check`; returns a digest of the run.
        pub fn run_seed(check: &str, seed: u64, tier: Tier, stats: &mut Stats) -> Result<u64, Violation> {
            match check {
                $($name => {
                    let sc = $m::generate(seed, tier);
                    let digest = $m::digest(&sc);
                    isolate($prop, $name, seed, &sc, stats, |st| $m::execute(seed, &sc, st))?;
                    Ok(digest)
                })*
                _ => panic!("unknown check {check}"),
            }
        }

        /// Re-executes a recorded scenario (no PRNG draws: everything is materialised in the file).
        pub fn replay(v: &Violation, stats: &mut Stats) -> Result<(), Violation> {
            match v.check.as_str() {
                $($name => {
                    let sc: $m::Scenario = serde_json::from_value(v.scenario.clone()).expect("scenario");
                    isolate($prop, $name, v.seed, &sc, stats, |st| $m::execute(v.seed, &sc, st))
                })*
                other => panic!("unknown check {other}"),
            }
        }

        pub fn scenario_json(check: &str, seed: u64, tier: Tier) -> String {
            match check {
                $($name => serde_json::to_string(&$m::generate(seed, tier)).unwrap(),)*
                _ => panic!("unknown check {check}"),
            }
        }

        pub fn minimise(check: &str, v: Violation) -> Violation {
            match check {
                $($name => {
                    let sc: $m::Scenario = serde_json::from_value(v.scenario.clone()).expect("scenario");
                    let class = v.class.clone();
                    let seed = v.seed;
                    let still = |cand: &$m::Scenario| -> Option<Violation> {
                        let mut st = Stats::default();
                        match isolate($prop, $name, seed, cand, &mut st, |st| $m::execute(seed, cand, st)) {
                            Err(v2) if v2.class == class => Some(v2),
                            _ => None,
                        }
                    };
                    let small = $m::minimise(&sc, &|c| still(c).is_some());
                    still(&small).unwrap_or(v)
                })*
                _ => v,
            }
        }
    };
}

dispatch! {
    "c09" => c09, "C09";
    "c10" => c10, "C10";
    "c11" => c11, "C11";
}
