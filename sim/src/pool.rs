//! Simulator-owned executors behind hook H2 (`JxlThreadPool::verif`).
//!
//! * `PermutePool` — one OS thread; every fork-join batch is executed in a seeded, rayon-legal
//!   order (1–4 simulated workers, each owning one clone of the per-worker state and a contiguous
//!   range of items, the workers' steps interleaved at random); scope tasks run immediately, before
//!   the next batch, or at scope end; detached tasks run immediately or are deferred until the
//!   harness drains them between public calls.
//! * `ShuttlePool` (sched build) — every task is a shuttle thread, so the shuttle scheduler owns
//!   the interleaving of tasks, background renders and caller threads.
use crate::harness::Fnv;
use crate::rng::Rng;
use jxl_threadpool::verif::{Plan, Task, VerifPool};
use std::collections::VecDeque;
use std::sync::Mutex;

#[derive(Default)]
struct Scope {
    token: usize,
    deferred: Vec<Task>,
}

struct State {
    rng: Rng,
    detached: VecDeque<Task>,
    scopes: Vec<Scope>,
    next_token: usize,
    decisions: Fnv,
    batches: u64,
    tasks: u64,
    deferred_detached: u64,
    max_workers: usize,
}

pub struct PermutePool {
    st: Mutex<State>,
}

impl std::fmt::Debug for PermutePool {
    fn fmt(&self, f: &mut std::fmt::Formatter<'_>) -> std::fmt::Result {
        write!(f, "PermutePool")
    }
}

impl PermutePool {
    pub fn new(seed: u64) -> std::sync::Arc<Self> {
        std::sync::Arc::new(Self {
            st: Mutex::new(State {
                rng: Rng::new(seed),
                detached: VecDeque::new(),
                scopes: Vec::new(),
                next_token: 1,
                decisions: Fnv::new(),
                batches: 0,
                tasks: 0,
                deferred_detached: 0,
                max_workers: 4,
            }),
        })
    }

    /// Runs the detached tasks deferred so far (called by the harness between public calls and
    /// before the image is dropped). Tasks may spawn more tasks; runs until the queue is empty.
    pub fn drain(&self) {
        loop {
            let t = self.st.lock().unwrap().detached.pop_front();
            match t {
                Some(t) => t(),
                None => break,
            }
        }
    }

    /// Runs a seeded subset of the deferred detached tasks.
    pub fn drain_some(&self) {
        loop {
            let t = {
                let mut st = self.st.lock().unwrap();
                if st.detached.is_empty() || st.rng.chance(1, 2) {
                    None
                } else {
                    let len = st.detached.len() as u64;
                    let i = st.rng.below(len) as usize;
                    st.detached.remove(i)
                }
            };
            match t {
                Some(t) => t(),
                None => break,
            }
        }
    }

    pub fn schedule_hash(&self) -> u64 {
        self.st.lock().unwrap().decisions.finish()
    }

    /// (batches, tasks, deferred detached tasks)
    pub fn counters(&self) -> (u64, u64, u64) {
        let st = self.st.lock().unwrap();
        (st.batches, st.tasks, st.deferred_detached)
    }

    fn run_scope_deferred(&self, token: Option<usize>, all: bool) {
        loop {
            let t = {
                let mut st = self.st.lock().unwrap();
                let idx = match token {
                    Some(tok) => st.scopes.iter().position(|s| s.token == tok),
                    None => {
                        if st.scopes.is_empty() {
                            None
                        } else {
                            Some(st.scopes.len() - 1)
                        }
                    }
                };
                match idx {
                    Some(i) if !st.scopes[i].deferred.is_empty() => {
                        let skip = !all && st.rng.chance(1, 2);
                        if skip {
                            None
                        } else {
                            let n = st.scopes[i].deferred.len();
                            let k = st.rng.below(n as u64) as usize;
                            st.decisions.write_u64(0x5c0 + k as u64);
                            Some(st.scopes[i].deferred.remove(k))
                        }
                    }
                    _ => None,
                }
            };
            match t {
                Some(t) => t(),
                None => break,
            }
        }
    }
}

unsafe impl VerifPool for PermutePool {
    fn is_multithreaded(&self) -> bool {
        true
    }

    fn spawn(&self, task: Task) {
        let run_now = {
            let mut st = self.st.lock().unwrap();
            let now = st.rng.chance(1, 2);
            st.decisions.write_u64(0xd0 + now as u64);
            st.tasks += 1;
            if !now {
                st.deferred_detached += 1;
            }
            now
        };
        if run_now {
            task();
        } else {
            self.st.lock().unwrap().detached.push_back(task);
        }
    }

    fn plan(&self, n: usize) -> Plan {
        // scope tasks of the innermost open scope may run before this batch
        self.run_scope_deferred(None, false);
        let mut st = self.st.lock().unwrap();
        st.batches += 1;
        st.tasks += n as u64;
        let maxw = st.max_workers as u64;
        let workers = (1 + st.rng.below(maxw) as usize).min(n);
        // contiguous ranges per worker (as rayon's splitter hands them out)
        let mut bounds: Vec<usize> = (0..workers - 1).map(|_| st.rng.below(n as u64 + 1) as usize).collect();
        bounds.sort_unstable();
        bounds.insert(0, 0);
        bounds.push(n);
        let mut cursors: Vec<(usize, usize)> = (0..workers).map(|w| (bounds[w], bounds[w + 1])).collect();
        let mut steps = Vec::with_capacity(n);
        let mut live: Vec<usize> = (0..workers).filter(|&w| cursors[w].0 < cursors[w].1).collect();
        while !live.is_empty() {
            let k = st.rng.below(live.len() as u64) as usize;
            let w = live[k];
            steps.push((w, cursors[w].0));
            st.decisions.write_u64(w as u64);
            cursors[w].0 += 1;
            if cursors[w].0 >= cursors[w].1 {
                live.swap_remove(k);
            }
        }
        st.decisions.write_u64(0xba7c0000 + workers as u64);
        Plan { workers, steps, concurrent: false }
    }

    fn run_batch(&self, tasks: Vec<Task>) {
        for t in tasks {
            t();
        }
    }

    fn scope_enter(&self) -> usize {
        let mut st = self.st.lock().unwrap();
        let token = st.next_token;
        st.next_token += 1;
        st.scopes.push(Scope { token, deferred: Vec::new() });
        token
    }

    fn scope_spawn(&self, token: usize, task: Task) {
        let run_now = {
            let mut st = self.st.lock().unwrap();
            st.tasks += 1;
            let now = st.rng.chance(1, 3);
            st.decisions.write_u64(0x5a0 + now as u64);
            now
        };
        if run_now {
            task();
        } else {
            let mut st = self.st.lock().unwrap();
            match st.scopes.iter_mut().find(|s| s.token == token) {
                Some(s) => s.deferred.push(task),
                None => {
                    drop(st);
                    task()
                }
            }
        }
    }

    fn scope_exit(&self, token: usize) {
        self.run_scope_deferred(Some(token), true);
        let mut st = self.st.lock().unwrap();
        if let Some(i) = st.scopes.iter().position(|s| s.token == token) {
            let s = st.scopes.remove(i);
            assert!(s.deferred.is_empty());
        }
    }
}

// ---------------------------------------------------------------------------------------------

#[cfg(feature = "sched")]
pub mod sched {
    use super::*;
    use shuttle::thread;

    struct SScope {
        token: usize,
        handles: Vec<thread::JoinHandle<()>>,
    }

    /// Every task is a shuttle thread. Detached tasks are joined by `join_detached`.
    pub struct ShuttlePool {
        st: Mutex<(usize, Vec<SScope>, Vec<thread::JoinHandle<()>>, u64)>,
        max_workers: usize,
    }

    impl std::fmt::Debug for ShuttlePool {
        fn fmt(&self, f: &mut std::fmt::Formatter<'_>) -> std::fmt::Result {
            write!(f, "ShuttlePool")
        }
    }

    impl ShuttlePool {
        pub fn new(max_workers: usize) -> std::sync::Arc<Self> {
            std::sync::Arc::new(Self { st: Mutex::new((1, Vec::new(), Vec::new(), 0)), max_workers })
        }

        pub fn join_detached(&self) {
            loop {
                let h = self.st.lock().unwrap().2.pop();
                match h {
                    Some(h) => {
                        let _ = h.join();
                    }
                    None => break,
                }
            }
        }

        pub fn tasks(&self) -> u64 {
            self.st.lock().unwrap().3
        }
    }

    fn spawn_task(task: Task) -> thread::JoinHandle<()> {
        thread::Builder::new().stack_size(4 << 20).spawn(move || task()).expect("shuttle spawn")
    }

    unsafe impl VerifPool for ShuttlePool {
        fn is_multithreaded(&self) -> bool {
            true
        }

        fn spawn(&self, task: Task) {
            let h = spawn_task(task);
            let mut st = self.st.lock().unwrap();
            st.2.push(h);
            st.3 += 1;
        }

        fn plan(&self, n: usize) -> Plan {
            // workload is a pure function of the scenario: fixed split, the scheduler owns the order
            let workers = self.max_workers.min(n).max(1);
            let steps = (0..n).map(|i| (i * workers / n, i)).collect();
            self.st.lock().unwrap().3 += workers as u64;
            Plan { workers, steps, concurrent: workers > 1 }
        }

        fn run_batch(&self, tasks: Vec<Task>) {
            let handles: Vec<_> = tasks.into_iter().map(spawn_task).collect();
            for h in handles {
                let _ = h.join();
            }
        }

        fn scope_enter(&self) -> usize {
            let mut st = self.st.lock().unwrap();
            let token = st.0;
            st.0 += 1;
            st.1.push(SScope { token, handles: Vec::new() });
            token
        }

        fn scope_spawn(&self, token: usize, task: Task) {
            let h = spawn_task(task);
            let mut st = self.st.lock().unwrap();
            st.3 += 1;
            if let Some(s) = st.1.iter_mut().find(|s| s.token == token) {
                s.handles.push(h);
            } else {
                st.2.push(h);
            }
        }

        fn scope_exit(&self, token: usize) {
            loop {
                let h = {
                    let mut st = self.st.lock().unwrap();
                    match st.1.iter_mut().find(|s| s.token == token) {
                        Some(s) => s.handles.pop(),
                        None => None,
                    }
                };
                match h {
                    Some(h) => {
                        let _ = h.join();
                    }
                    None => break,
                }
            }
            let mut st = self.st.lock().unwrap();
            st.1.retain(|s| s.token != token);
        }
    }
}
