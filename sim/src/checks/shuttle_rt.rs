//! Running decoder scenarios under the shuttle scheduler (sched build only).
#![cfg(feature = "sched")]
use serde::{Deserialize, Serialize};
use shuttle::scheduler::{PctScheduler, RandomScheduler};
use shuttle::{Config, FailurePersistence, MaxSteps, Runner};
use std::collections::HashMap;
use std::sync::{Arc, Mutex};

#[derive(Clone, Copy, Debug, Serialize, Deserialize, PartialEq, Eq)]
pub enum SchedKind {
    Random,
    Pct(usize),
}

#[derive(Clone, Debug, Serialize, Deserialize)]
pub struct IterSpec {
    pub kind: SchedKind,
    pub seed: u64,
}

#[derive(Debug)]
pub enum RunFailure {
    Deadlock(String),
    StepBound(String),
    /// (location, message)
    Panic(String, String),
}

pub const MAX_STEPS: usize = 3_000_000;

fn config() -> Config {
    let mut c = Config::new();
    c.stack_size = 16 << 20;
    c.failure_persistence = FailurePersistence::None;
    c.max_steps = MaxSteps::FailAfter(MAX_STEPS);
    c.silence_warnings = true;
    c
}

/// Runs `f` once under the scheduler described by `it`. Exactly repeatable: the schedule is a pure
/// function of `it` and of the (deterministic) closure.
pub fn run_once(it: &IterSpec, f: impl Fn() + Send + Sync + 'static) -> Result<(), RunFailure> {
    let it = it.clone();
    let r = std::panic::catch_unwind(std::panic::AssertUnwindSafe(move || match it.kind {
        SchedKind::Random => {
            Runner::new(RandomScheduler::new_from_seed(it.seed, 1), config()).run(f);
        }
        SchedKind::Pct(d) => {
            Runner::new(PctScheduler::new_from_seed(it.seed, d.max(1), 1), config()).run(f);
        }
    }));
    match r {
        Ok(()) => Ok(()),
        Err(p) => {
            let msg = crate::harness::panic_message(&*p);
            let loc = crate::harness::last_panic_location();
            if msg.starts_with("deadlock!") {
                Err(RunFailure::Deadlock(msg))
            } else if msg.contains("exceeded max_steps") {
                Err(RunFailure::StepBound(msg))
            } else {
                Err(RunFailure::Panic(loc, msg))
            }
        }
    }
}

// ---- render probe (hook H3b): executions per frame, at most one in flight ------------------------

#[derive(Default)]
pub struct ProbeState {
    pub inflight: HashMap<(usize, u8), u32>,
    pub executions: HashMap<(usize, u8), u32>,
    pub max_inflight: u32,
    pub overlap: Option<(usize, u8)>,
    pub states: Vec<u64>,
    pub resets_of_finished: u32,
    pub resets_of_rendering: u32,
}

pub static PROBE: Mutex<Option<ProbeState>> = Mutex::new(None);

fn probe_fn(frame: usize, kind: jxl_render::verif::ProbeKind, enter: bool) {
    let k = match kind {
        jxl_render::verif::ProbeKind::Render => 0u8,
        jxl_render::verif::ProbeKind::Blend => 1u8,
        jxl_render::verif::ProbeKind::ResetFinished => {
            if let Ok(mut g) = PROBE.lock() {
                if let Some(st) = g.as_mut() {
                    st.resets_of_finished += 1;
                }
            }
            return;
        }
        jxl_render::verif::ProbeKind::ResetRendering => {
            if let Ok(mut g) = PROBE.lock() {
                if let Some(st) = g.as_mut() {
                    st.resets_of_rendering += 1;
                }
            }
            return;
        }
    };
    if let Ok(mut g) = PROBE.lock() {
        if let Some(st) = g.as_mut() {
            let e = st.inflight.entry((frame, k)).or_insert(0);
            if enter {
                *e += 1;
                let v = *e;
                *st.executions.entry((frame, k)).or_insert(0) += 1;
                if v > st.max_inflight {
                    st.max_inflight = v;
                }
                if v > 1 && st.overlap.is_none() {
                    st.overlap = Some((frame, k));
                }
            } else {
                *e = e.saturating_sub(1);
            }
            // state vector = in-flight map (distinct interleaving measure)
            let mut h = crate::harness::Fnv::new();
            let mut items: Vec<_> = st.inflight.iter().filter(|(_, v)| **v > 0).map(|(k, v)| (*k, *v)).collect();
            items.sort_unstable();
            for ((f, k), v) in items {
                h.write_u64(f as u64);
                h.write_u64(k as u64);
                h.write_u64(v as u64);
            }
            st.states.push(h.finish());
        }
    }
}

pub fn probe_reset() {
    jxl_render::verif::set_probe(probe_fn);
    *PROBE.lock().unwrap() = Some(ProbeState::default());
}

pub fn probe_take() -> ProbeState {
    PROBE.lock().unwrap().take().unwrap_or_default()
}

pub type Shared<T> = Arc<Mutex<T>>;
