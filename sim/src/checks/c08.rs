//! C08 — a failed render never wedges or corrupts the image: later calls still return.
use crate::checks::common::*;
use crate::harness::{Stats, Tier, Violation};
use serde::{Deserialize, Serialize};

#[derive(Clone, Debug, Serialize, Deserialize)]
pub enum PostOp {
    Render(usize),
    /// request the full image region again (rebuilds every render handle), then render
    ResetRegionAndRender(usize),
    RenderLoading,
}

#[derive(Clone, Debug, Serialize, Deserialize)]
pub enum FaultPlan {
    /// fail every tracked allocation from the k-th of the first render on (hook H1), then lift it
    FailFrom(usize),
    /// public API only: budget = current usage + per-mille of the first render's peak; then expand_limit
    Budget(u32),
    /// no allocation fault; the stream has a corrupt group
    CorruptGroup,
}

#[derive(Clone, Debug, Serialize, Deserialize)]
pub struct Trial {
    pub plan: FaultPlan,
    pub first_keyframe: usize,
    pub post: Vec<PostOp>,
    /// `Some(per-mille of the stream length)`: the failing call is `render_loading_frame` on a
    /// stream fed only up to that point; the rest is fed after the fault is lifted
    #[serde(default)]
    pub partial_cut: Option<u32>,
    /// partial trials: bit 0 = render the loading frame once more after the fault is lifted and
    /// before more bytes arrive; bit 1 = the rest arrives in two pieces with a loading render between
    #[serde(default)]
    pub partial_variant: u8,
}

#[derive(Clone, Debug, Serialize, Deserialize)]
pub struct Scenario {
    pub case: StreamCase,
    pub corrupt: bool,
    pub shuttle_pool: bool,
    pub trials: Vec<Trial>,
    /// every k of the first render was enumerated
    pub exhaustive_k: bool,
    /// `Some(n)`: the simulated pool has n worker threads and one queue (rayon-like: a blocked task
    /// keeps its worker) instead of one thread per task
    #[serde(default)]
    pub bounded_workers: Option<usize>,
}

pub fn digest(sc: &Scenario) -> u64 {
    let mut h = crate::harness::Fnv::new();
    h.write(&sc.case.bytes);
    h.write(format!("{:?}{}{:?}", sc.trials, sc.shuttle_pool, sc.bounded_workers).as_bytes());
    h.finish()
}

#[cfg(not(feature = "sched"))]
pub fn generate(_seed: u64, _tier: Tier) -> Scenario {
    panic!("c08 needs the sched build")
}
#[cfg(not(feature = "sched"))]
pub fn execute(_seed: u64, _sc: &Scenario, _stats: &mut Stats) -> Result<(), Violation> {
    panic!("c08 needs the sched build")
}
#[cfg(not(feature = "sched"))]
pub fn minimise(sc: &Scenario, _still: &dyn Fn(&Scenario) -> bool) -> Scenario {
    sc.clone()
}

#[cfg(feature = "sched")]
pub use imp::*;

#[cfg(feature = "sched")]
mod imp {
    use super::*;
    use crate::checks::shuttle_rt::*;
    use crate::jxlgen::random::{GenConfig, random_program};
    use crate::observe::RenderObs;
    use crate::pool::sched::{BoundedGuard, BoundedPool, ShuttlePool};
    use crate::rng::{Rng, derive};
    use crate::simio::{ChunkSchedule, StorageFault};
    use jxl_oxide::{AllocTracker, CropInfo, JxlThreadPool};
    use std::sync::{Arc, Mutex};

    const AMPLE: usize = 1 << 31;

    struct Reference {
        obs: Vec<RenderObs>,
        render_allocs: Vec<usize>,
        render_peaks: Vec<usize>,
    }

    fn post_ops(rng: &mut Rng, nkey: usize) -> Vec<PostOp> {
        (0..rng.usize_in(2, 6))
            .map(|_| match rng.below(8) {
                0..=4 => PostOp::Render(rng.below(nkey as u64) as usize),
                5 | 6 => PostOp::ResetRegionAndRender(rng.below(nkey as u64) as usize),
                _ => PostOp::RenderLoading,
            })
            .collect()
    }

    pub fn generate(seed: u64, tier: Tier) -> Scenario {
        let mut rng = Rng::new(derive(seed, 8, 0));
        let fixture = rng.below(if tier == Tier::Quick { 4000 } else { 400 }) == 0;
        let corrupt = !fixture && rng.chance(1, 6);
        let mut case = if fixture {
            valid_stream(&mut rng, &GenConfig::small(), 1, 0)
        } else {
            let cfg = GenConfig { max_dim: 48, max_frames: 5, min_frames: 2, max_pixels: 48 * 48, vardct: rng.chance(1, 4), ..GenConfig::small() }.swarm(&mut rng);
            let prog = random_program(&mut rng, &cfg);
            let shape = program_shape(&prog);
            let (bytes, map) = prog.encode().expect("encode");
            StreamCase { structural: map.structural_offsets(), headers: vec![], container: false, aux_after_codestream: false, brob_after_codestream: false, shape, source: "jxlgen".into(), has_vardct: prog.frames.iter().any(|f| f.vardct.is_some()), program: serde_json::to_value(&prog).ok(), bytes }
        };
        if corrupt {
            let len = case.bytes.len();
            if len > 120 {
                let off = rng.usize_in(len / 2, len - 1);
                StorageFault::BitFlip { offset: off, bit: rng.below(8) as u8 }.apply(&mut case.bytes);
            }
        }
        // number of keyframes / allocations are only known at run time: trials carry indices that
        // are resolved modulo the measured values
        let nkey_guess = 4;
        let mut trials = Vec::new();
        let n = if fixture { 6 } else if tier == Tier::Quick { 24 } else { 400 };
        let exhaustive_k = tier == Tier::Thorough && !fixture;
        for i in 0..n {
            let plan = if corrupt && i % 3 == 0 {
                FaultPlan::CorruptGroup
            } else if exhaustive_k {
                FaultPlan::FailFrom(i)
            } else {
                match rng.below(5) {
                    0 => FaultPlan::Budget(rng.below(1000) as u32),
                    _ => FaultPlan::FailFrom(rng.below(100_000) as usize),
                }
            };
            let partial_cut = if !exhaustive_k && !fixture && rng.chance(1, 4) { Some(if rng.chance(2, 3) { 600 + rng.below(400) as u32 } else { rng.below(1000) as u32 }) } else { None };
            let partial_variant = rng.below(4) as u8;
            trials.push(Trial { plan, first_keyframe: rng.below(nkey_guess) as usize, post: post_ops(&mut rng, nkey_guess as usize), partial_cut, partial_variant });
        }
        let shuttle_pool = !fixture && rng.chance(1, 3);
        let bounded_workers = (shuttle_pool && rng.chance(1, 2)).then(|| rng.usize_in(1, 2));
        Scenario { case, corrupt, shuttle_pool, trials, exhaustive_k, bounded_workers }
    }

    fn viol(seed: u64, sc: &Scenario, class: String, detail: String) -> Violation {
    let class = sc.case.tag(class);
        Violation { property: "C08".into(), check: "c08".into(), class, detail, seed, scenario: serde_json::to_value(sc).unwrap() }
    }

    fn failure_to_violation(seed: u64, sc: &Scenario, f: RunFailure, ctx: &str) -> Violation {
        match f {
            RunFailure::Deadlock(m) => viol(seed, sc, "never_returns".into(), format!("{ctx}: a call waits on a frame nobody is rendering — {m}")),
            RunFailure::StepBound(m) => viol(seed, sc, "no_progress_within_step_bound".into(), format!("{ctx}: {m}")),
            RunFailure::Panic(loc, m) => {
                if crate::harness::is_decoder_location(&loc) && !loc.contains("shuttle") {
                    viol(seed, sc, crate::checks::panic_class(&loc, &m), format!("{ctx}: decoder panicked at {loc}: {m}"))
                } else {
                    panic!("harness/shuttle panic at {loc}: {m}")
                }
            }
        }
    }

    pub fn execute(seed: u64, sc: &Scenario, stats: &mut Stats) -> Result<(), Violation> {
        stats.evaluations += 1;
        let bytes = Arc::new(sc.case.bytes.clone());
        let it = IterSpec { kind: SchedKind::Random, seed: 7 };
        // ---- fault-free reference: samples of every keyframe, and per keyframe the number of
        // tracked allocations and the peak of a first render on a fresh decoder
        let reference: Shared<Option<Reference>> = Arc::new(Mutex::new(None));
        {
            let bytes = bytes.clone();
            let reference = reference.clone();
            crate::harness::heartbeat("c08-reference");
            let r = run_once(&it, move || {
                let tracker = AllocTracker::with_limit(AMPLE);
                let Ok(img) = load_chunked(&bytes, &ChunkSchedule::whole(bytes.len()), Some(tracker.clone()), JxlThreadPool::none()) else { return };
                let nkey = img.num_loaded_keyframes();
                let obs: Vec<RenderObs> = (0..nkey).map(|k| RenderObs::from_result(&img.render_frame(k))).collect();
                drop(img);
                let mut render_allocs = Vec::new();
                let mut render_peaks = Vec::new();
                for k in 0..nkey {
                    let tracker = AllocTracker::with_limit(AMPLE);
                    let Ok(img) = load_chunked(&bytes, &ChunkSchedule::whole(bytes.len()), Some(tracker.clone()), JxlThreadPool::none()) else { return };
                    let (a0, o0) = (tracker.verif_allocs(), tracker.verif_outstanding());
                    let _ = img.render_frame(k);
                    render_allocs.push(tracker.verif_allocs() - a0);
                    render_peaks.push(tracker.verif_high_water().saturating_sub(o0));
                }
                *reference.lock().unwrap() = Some(Reference { obs, render_allocs, render_peaks });
            });
            if let Err(f) = r {
                return Err(failure_to_violation(seed, sc, f, "fault-free reference"));
            }
        }
        let Some(reference) = reference.lock().unwrap().take() else {
            stats.generator_rejects += 1;
            return Ok(());
        };
        let nkey = reference.obs.len();
        if nkey == 0 || (!sc.corrupt && reference.obs.iter().any(|o| !o.is_ok())) {
            stats.generator_rejects += 1;
            return Ok(());
        }
        let reference = Arc::new(reference);

        for (ti, trial) in sc.trials.iter().enumerate() {
            crate::harness::heartbeat("c08-trial");
            let kf = trial.first_keyframe % nkey;
            let n_allocs = reference.render_allocs[kf].max(1);
            // resolve the fault position
            let (k, budget_pm) = match trial.plan {
                FaultPlan::FailFrom(k) => {
                    if sc.exhaustive_k && k >= n_allocs {
                        continue;
                    }
                    (Some(k % n_allocs), None)
                }
                FaultPlan::Budget(pm) => (None, Some(pm)),
                FaultPlan::CorruptGroup => (None, None),
            };
            let log: Shared<Vec<(String, RenderObs, usize)>> = Arc::new(Mutex::new(Vec::new()));
            let run = {
                let bytes = bytes.clone();
                let log = log.clone();
                let reference = reference.clone();
                let trial = trial.clone();
                let shuttle_pool = sc.shuttle_pool;
                let bounded = sc.bounded_workers;
                run_once(&it, move || {
                    let tracker = AllocTracker::with_limit(AMPLE);
                    let spool = (shuttle_pool && bounded.is_none()).then(|| ShuttlePool::new(2));
                    let bpool = bounded.filter(|_| shuttle_pool).map(BoundedPool::new);
                    // declared before the image: dropped (workers shut down) after it, on every path
                    let _bguard = bpool.clone().map(BoundedGuard);
                    let pool = match (&spool, &bpool) {
                        (Some(p), _) => JxlThreadPool::verif(p.clone() as Arc<dyn jxl_threadpool::verif::VerifPool>),
                        (_, Some(b)) => JxlThreadPool::verif(b.clone() as Arc<dyn jxl_threadpool::verif::VerifPool>),
                        _ => JxlThreadPool::none(),
                    };
                    // the stream is fed fault-free first (completely, or up to the cut for a partial
                    // trial): C08 is about a failing *render*
                    let cut = trial.partial_cut.map(|pm| (bytes.len() as u64 * pm as u64 / 1000) as usize);
                    let fed = cut.unwrap_or(bytes.len());
                    let mut u = new_uninit(&LoadOpts { pool, tracker: Some(tracker.clone()), force_wide: false });
                    if u.feed_bytes(&bytes[..fed]).is_err() {
                        return;
                    }
                    let Ok(jxl_oxide::InitializeResult::Initialized(mut img)) = u.try_init() else { return };
                    if let Some(cut) = cut {
                        // fault during the progressive render of the partially loaded stream
                        let mut expanded = 0usize;
                        if let Some(k) = k {
                            tracker.verif_fail_from(tracker.verif_allocs() + k);
                        } else if let Some(pm) = budget_pm {
                            let allow = (reference.render_peaks[0] as u64 * pm as u64 / 1000) as usize;
                            let left = tracker.verif_bytes_left();
                            if left > allow && tracker.shrink_limit(left - allow).is_ok() {
                                expanded = left - allow;
                            }
                        }
                        let first = img.render_loading_frame().is_ok();
                        log.lock().unwrap().push((if first { "loading_render_ok".into() } else { "loading_render_failed".into() }, RenderObs::Err(crate::harness::ErrClass::Other), usize::MAX));
                        tracker.verif_fail_from(usize::MAX);
                        if expanded > 0 {
                            tracker.expand_limit(expanded);
                        }
                        if trial.partial_variant & 1 != 0 {
                            // a loading render that succeeds after the failure must show what a decoder
                            // that never failed shows for the same prefix (added after seeded mutation c08-m3)
                            let again = RenderObs::from_result(&img.render_loading_frame());
                            if again.is_ok() {
                                let fresh = {
                                    let mut u2 = new_uninit(&LoadOpts { pool: JxlThreadPool::none(), tracker: Some(AllocTracker::with_limit(AMPLE)), force_wide: false });
                                    let _ = u2.feed_bytes(&bytes[..fed]);
                                    match u2.try_init() {
                                        Ok(jxl_oxide::InitializeResult::Initialized(mut i2)) => Some(RenderObs::from_result(&i2.render_loading_frame())),
                                        _ => None,
                                    }
                                };
                                if let Some(fresh) = fresh {
                                    let d = if fresh.is_ok() { fresh.diff(&again) } else { Some("a decoder that never failed cannot render this prefix, this one can".to_string()) };
                                    if let Some(d) = d {
                                        log.lock().unwrap().push((format!("LOADING_MISMATCH:{d}"), again, usize::MAX - 1));
                                    }
                                }
                            }
                        }
                        if trial.partial_variant & 2 != 0 {
                            let mid = cut + (bytes.len() - cut) / 2;
                            if img.feed_bytes(&bytes[cut..mid]).is_err() {
                                return;
                            }
                            let _ = img.render_loading_frame();
                            if img.feed_bytes(&bytes[mid..]).is_err() {
                                return;
                            }
                        } else if img.feed_bytes(&bytes[cut..]).is_err() {
                            return;
                        }
                        let _ = img.finalize();
                        for k in 0..img.num_loaded_keyframes() {
                            let o = RenderObs::from_result(&img.render_frame(k));
                            log.lock().unwrap().push(("render_after_completion".into(), o, k));
                        }
                        if let Some(p) = &spool {
                            p.join_detached();
                        }
                        if let Some(b) = &bpool {
                            b.join_detached();
                        }
                        return;
                    }
                    let nkey = img.num_loaded_keyframes();
                    if nkey == 0 {
                        return;
                    }
                    let kf = kf.min(nkey - 1);
                    let mut expanded = 0usize;
                    if let Some(k) = k {
                        tracker.verif_fail_from(tracker.verif_allocs() + k);
                    } else if let Some(pm) = budget_pm {
                        // leave only a fraction of what the render needs
                        let allow = (reference.render_peaks[kf] as u64 * pm as u64 / 1000) as usize;
                        let left = tracker.verif_bytes_left();
                        if left > allow && tracker.shrink_limit(left - allow).is_ok() {
                            expanded = left - allow;
                        }
                    }
                    let first = RenderObs::from_result(&img.render_frame(kf));
                    log.lock().unwrap().push(("first".into(), first, kf));
                    // "the limit is raised"
                    tracker.verif_fail_from(usize::MAX);
                    if expanded > 0 {
                        tracker.expand_limit(expanded);
                    }
                    for op in &trial.post {
                        match op {
                            PostOp::Render(k) => {
                                let k = k % nkey;
                                let o = RenderObs::from_result(&img.render_frame(k));
                                log.lock().unwrap().push(("render".into(), o, k));
                            }
                            PostOp::ResetRegionAndRender(k) => {
                                let k = k % nkey;
                                let (w, h) = (img.width(), img.height());
                                img.set_image_region(CropInfo { left: 0, top: 0, width: w, height: h });
                                let o = RenderObs::from_result(&img.render_frame(k));
                                log.lock().unwrap().push(("reset_region+render".into(), o, k));
                            }
                            PostOp::RenderLoading => {
                                let _ = img.render_loading_frame();
                            }
                        }
                    }
                    if let Some(p) = &spool {
                        p.join_detached();
                    }
                    if let Some(b) = &bpool {
                        b.join_detached();
                    }
                })
            };
            let entries = std::mem::take(&mut *log.lock().unwrap());
            stats.steps += entries.len() as u64;
            let ctx = format!("trial {ti} ({:?} resolved k={k:?} of N={n_allocs}, first keyframe {kf}, after {} returned calls)", trial.plan, entries.len());
            if let Err(f) = run {
                let done: Vec<String> = entries.iter().map(|(n, o, k)| format!("{n}({k})={}", o.short())).collect();
                return Err(failure_to_violation(seed, sc, f, &format!("{ctx}; returned so far: [{}]", done.join(", "))));
            }
            let partial = trial.partial_cut.is_some();
            if partial {
                stats.fault(if entries.first().map(|e| e.0 == "loading_render_failed").unwrap_or(false) { "partial:loading_render_failed" } else { "partial:loading_render_survived" });
            }
            if let Some(m) = entries.iter().find(|e| e.0.starts_with("LOADING_MISMATCH:")) {
                return Err(viol(seed, sc, "corrupted_after_failure:loading_render".into(), format!("{ctx}: after the failed loading render and with the fault lifted, render_loading_frame of the same prefix succeeded but differs from a decoder that never failed: {}", &m.0["LOADING_MISMATCH:".len()..])));
            }
            let entries: Vec<_> = entries.into_iter().filter(|e| e.2 != usize::MAX && e.2 != usize::MAX - 1).collect();
            let first_failed = partial || entries.first().map(|e| !e.1.is_ok()).unwrap_or(false);
            if !partial { stats.fault(match trial.plan {
                FaultPlan::FailFrom(_) => if first_failed { "alloc_fail_from_k:render_failed" } else { "alloc_fail_from_k:render_survived" },
                FaultPlan::Budget(_) => if first_failed { "budget:render_failed" } else { "budget:render_survived" },
                FaultPlan::CorruptGroup => "corrupt_group",
            }); }
            let mut later_ok = false;
            for (name, o, kidx) in &entries {
                if let RenderObs::Ok { .. } = o {
                    if name != "first" && first_failed {
                        later_ok = true;
                    }
                    match &reference.obs[*kidx] {
                        r @ RenderObs::Ok { .. } => {
                            if let Some(d) = r.diff(o) {
                                return Err(viol(seed, sc, "corrupted_after_failure".into(), format!("{ctx}: `{name}` of keyframe {kidx} succeeded but differs from a decode that never failed: {d}")));
                            }
                        }
                        RenderObs::Err(_) => {
                            if sc.corrupt {
                                return Err(viol(seed, sc, "verdict_changed_after_failure".into(), format!("{ctx}: keyframe {kidx} of a corrupt stream fails on a fresh decoder but `{name}` succeeded here")));
                            }
                        }
                    }
                }
            }
            if later_ok {
                stats.probe("later_call_succeeded_after_failure");
            }
            if first_failed && !later_ok {
                stats.probe("error_persisted_after_failure");
            }
            let bucket = k.map(|k| k * 8 / n_allocs).unwrap_or(9);
            stats.distinct_sig(&[&sc.case.shape, &bucket, &first_failed, &later_ok, &sc.shuttle_pool]);
        }
        if sc.exhaustive_k {
            stats.probe("programs_with_every_k");
        }
        stats.sample(serde_json::json!({
            "shape": sc.case.shape, "keyframes": nkey, "first_render_allocs": reference.render_allocs, "trials": sc.trials.len(),
            "shuttle_pool": sc.shuttle_pool, "corrupt": sc.corrupt, "exhaustive_k": sc.exhaustive_k,
        }));
        Ok(())
    }

    pub fn minimise(sc: &Scenario, still: &dyn Fn(&Scenario) -> bool) -> Scenario {
        let mut best = sc.clone();
        for i in 0..best.trials.len() {
            let mut c = best.clone();
            c.trials = vec![best.trials[i].clone()];
            c.exhaustive_k = false;
            if still(&c) {
                best = c;
                break;
            }
        }
        if best.trials.len() == 1 {
            let mut i = 0;
            while i < best.trials[0].post.len() {
                let mut c = best.clone();
                c.trials[0].post.remove(i);
                if still(&c) {
                    best = c;
                } else {
                    i += 1;
                }
            }
        }
        if best.shuttle_pool {
            let mut c = best.clone();
            c.shuttle_pool = false;
            if still(&c) {
                best = c;
            }
        }
        best
    }
}
