//! Colour-encoding variants of the image header and an embedded-ICC writer.
//!
//! The profile bytes are synthesised by the library from an enum colour encoding (so the decoder
//! parses them back into that encoding and no colour conversion is needed for non-XYB images); the
//! *compressed ICC stream* (output size, command stream, data stream, 41-context entropy coding) is
//! written here: header residuals against the format's predictor, a tag list in raw or
//! common-tag form with explicit or implied offsets, and the body as a random mix of copy /
//! 2-shuffle / 4-shuffle / order-0 predictor / `XYZ ` / common-type commands.
use super::entropy::Coder;
use crate::bits::BitWriter;
use crate::rng::Rng;
use serde::{Deserialize, Serialize};

#[derive(Clone, Debug, Serialize, Deserialize, Default, PartialEq)]
pub enum ColourSpec {
    /// grey images: explicit grey sRGB; otherwise `all_default`
    #[default]
    Default,
    Enum(EnumSpec),
    Icc(IccSpec),
}

#[derive(Clone, Debug, Serialize, Deserialize, PartialEq)]
pub struct EnumSpec {
    /// 1 D65, 2 custom, 10 E, 11 DCI
    pub white: u32,
    pub white_xy: (i32, i32),
    /// 1 sRGB, 2 custom, 9 BT.2100, 11 P3
    pub primaries: u32,
    pub prim_xy: [(i32, i32); 3],
    /// `Some(g)`: gamma scaled by 1e7 (1..=10_000_000)
    pub gamma: Option<u32>,
    /// 1 BT.709, 2 unknown, 8 linear, 13 sRGB, 16 PQ, 17 DCI, 18 HLG
    pub tf: u32,
    pub intent: u32,
}

#[derive(Clone, Debug, Serialize, Deserialize, PartialEq)]
pub struct IccSpec {
    /// the profile is synthesised from this encoding
    pub base: EnumSpec,
    /// 0: no tag list, one copy command; 1: no tag list, random body commands; 2: tag list + random body
    pub style: u32,
    pub seed: u64,
}

impl EnumSpec {
    /// `no_unknown_tf`: the Unknown transfer function has no ICC form (and makes `rendered_icc` panic: F9)
    pub fn random(rng: &mut Rng, for_icc: bool) -> Self {
        let white = *rng.pick(&[1u32, 1, 1, 2, 10, 11]);
        let primaries = *rng.pick(&[1u32, 1, 2, 9, 11]);
        let xy = |rng: &mut Rng| (rng.range(150_000, 700_000) as i32, rng.range(60_000, 700_000) as i32);
        // a plausible triangle so that the primaries matrix is invertible
        let prim_xy = [
            (rng.range(600_000, 720_000) as i32, rng.range(270_000, 340_000) as i32),
            (rng.range(170_000, 320_000) as i32, rng.range(590_000, 800_000) as i32),
            (rng.range(120_000, 160_000) as i32, rng.range(40_000, 80_000) as i32),
        ];
        let gamma = if rng.chance(1, 5) { Some(*rng.pick(&[4_545_455u32, 10_000_000, 3_846_154, 5_555_555, 1_000_000])) } else { None };
        // `Unknown` has no ICC form
        let tf = if for_icc { *rng.pick(&[1u32, 8, 13, 13, 16, 17, 18]) } else { *rng.pick(&[1u32, 2, 8, 13, 13, 16, 17, 18]) };
        Self { white, white_xy: if rng.chance(1, 2) { (312_700, 329_000) } else { xy(rng) }, primaries, prim_xy, gamma, tf, intent: rng.below(4) as u32 }
    }

    fn to_library(&self, gray: bool) -> jxl_oxide::EnumColourEncoding {
        use jxl_oxide::color::*;
        let c = |p: (i32, i32)| Customxy { x: p.0, y: p.1 };
        EnumColourEncoding {
            colour_space: if gray { ColourSpace::Grey } else { ColourSpace::Rgb },
            white_point: match self.white {
                2 => WhitePoint::Custom(c(self.white_xy)),
                10 => WhitePoint::E,
                11 => WhitePoint::Dci,
                _ => WhitePoint::D65,
            },
            primaries: match self.primaries {
                2 => Primaries::Custom { red: c(self.prim_xy[0]), green: c(self.prim_xy[1]), blue: c(self.prim_xy[2]) },
                9 => Primaries::Bt2100,
                11 => Primaries::P3,
                _ => Primaries::Srgb,
            },
            tf: match (self.gamma, self.tf) {
                (Some(g), _) => TransferFunction::Gamma { g, inverted: true },
                (None, 1) => TransferFunction::Bt709,
                (None, 2) => TransferFunction::Unknown,
                (None, 8) => TransferFunction::Linear,
                (None, 16) => TransferFunction::Pq,
                (None, 17) => TransferFunction::Dci,
                (None, 18) => TransferFunction::Hlg,
                _ => TransferFunction::Srgb,
            },
            rendering_intent: match self.intent {
                0 => RenderingIntent::Perceptual,
                2 => RenderingIntent::Saturation,
                3 => RenderingIntent::Absolute,
                _ => RenderingIntent::Relative,
            },
        }
    }
}

fn customxy(w: &mut BitWriter, p: (i32, i32)) {
    for v in [p.0, p.1] {
        w.u32([(0, 19), (524288, 19), (1048576, 20), (2097152, 21)], crate::bits::pack_signed(v), None);
    }
}

/// The `ColourEncoding` bundle (without `all_default = true` shortcut) for a non-XYB or XYB image.
pub fn write_colour_encoding(w: &mut BitWriter, spec: &ColourSpec, gray: bool, xyb: bool) {
    match spec {
        ColourSpec::Default => {
            if gray && !xyb {
                w.bool(false); // all_default
                w.bool(false); // want_icc
                w.enum_(1); // Grey
                w.enum_(1); // white point D65
                w.bool(false); // no gamma
                w.enum_(13); // sRGB tf
                w.enum_(1); // relative
            } else {
                w.bool(true);
            }
        }
        ColourSpec::Enum(e) => {
            w.bool(false);
            w.bool(false);
            let grey = gray && !xyb;
            w.enum_(if grey { 1 } else { 0 });
            w.enum_(e.white);
            if e.white == 2 {
                customxy(w, e.white_xy);
            }
            if !grey {
                w.enum_(e.primaries);
                if e.primaries == 2 {
                    for p in e.prim_xy {
                        customxy(w, p);
                    }
                }
            }
            match e.gamma {
                Some(g) => {
                    w.bool(true);
                    w.w(g as u64, 24);
                }
                None => {
                    w.bool(false);
                    w.enum_(e.tf);
                }
            }
            w.enum_(e.intent);
        }
        ColourSpec::Icc(_) => {
            w.bool(false);
            w.bool(true); // want_icc
            w.enum_(if gray && !xyb { 1 } else { 0 });
        }
    }
}

fn varint(out: &mut Vec<u8>, mut v: u64) {
    loop {
        let b = (v & 0x7f) as u8;
        v >>= 7;
        if v == 0 {
            out.push(b);
            break;
        }
        out.push(b | 0x80);
    }
}

fn predict_header(idx: usize, output_size: u32, header: &[u8]) -> u8 {
    match idx {
        0..=3 => output_size.to_be_bytes()[idx],
        8 => 4,
        12..=23 => b"mntrRGB XYZ "[idx - 12],
        36..=39 => b"acsp"[idx - 36],
        41 | 42 if header[40] == b'A' => b'P',
        43 if header[40] == b'A' => b'L',
        41 if header[40] == b'M' => b'S',
        42 if header[40] == b'M' => b'F',
        43 if header[40] == b'M' => b'T',
        42 if header[40] == b'S' && header[41] == b'G' => b'I',
        43 if header[40] == b'S' && header[41] == b'G' => b' ',
        42 if header[40] == b'S' && header[41] == b'U' => b'N',
        43 if header[40] == b'S' && header[41] == b'U' => b'W',
        70 => 246,
        71 => 214,
        73 => 1,
        78 => 211,
        79 => 45,
        80..=83 => header[4 + idx - 80],
        _ => 0,
    }
}

/// Index permutation of the decoder's 2-way / 4-way unshuffle: `out[k] = input[perm[k]]`.
fn shuffle_perm(len: usize, width: usize) -> Vec<usize> {
    let idx: Vec<usize> = (0..len).collect();
    let mut out = Vec::with_capacity(len);
    if width == 2 {
        let height = len / 2;
        let odd = len % 2;
        for i in 0..height {
            out.push(idx[i]);
            out.push(idx[i + height + odd]);
        }
        if odd != 0 {
            out.push(idx[height]);
        }
    } else {
        let step = len / 4;
        let wide = len % 4;
        for i in 0..step {
            let mut base = i;
            for _ in 0..wide {
                out.push(idx[base]);
                base += step + 1;
            }
            for _ in wide..4 {
                out.push(idx[base]);
                base += step;
            }
        }
        for i in 1..=wide {
            out.push(idx[(step + 1) * i - 1]);
        }
    }
    out
}

/// Bytes which the decoder's unshuffle turns into `target`.
fn preshuffle(target: &[u8], width: usize) -> Vec<u8> {
    let perm = shuffle_perm(target.len(), width);
    let mut input = vec![0u8; target.len()];
    for (k, &p) in perm.iter().enumerate() {
        input[p] = target[k];
    }
    input
}

const COMMON_TAGS: [&[u8; 4]; 19] = [
    b"rTRC", b"rXYZ", b"cprt", b"wtpt", b"bkpt", b"rXYZ", b"gXYZ", b"bXYZ", b"kXYZ", b"rTRC", b"gTRC", b"bTRC", b"kTRC", b"chad", b"desc", b"chrm", b"dmnd", b"dmdd", b"lumi",
];
const COMMON_DATA: [&[u8; 4]; 8] = [b"XYZ ", b"desc", b"text", b"mluc", b"para", b"curv", b"sf32", b"gbd "];

impl IccSpec {
    pub fn random(rng: &mut Rng) -> Self {
        Self { base: EnumSpec::random(rng, true), style: rng.below(3) as u32, seed: rng.next_u64() }
    }

    pub fn profile(&self, gray: bool) -> Vec<u8> {
        jxl_color::icc::colour_encoding_to_icc(&self.base.to_library(gray))
    }

    /// The compressed ICC stream (before entropy coding) that decodes to `profile`.
    pub fn encode_stream(&self, profile: &[u8]) -> Vec<u8> {
        let mut rng = Rng::new(self.seed);
        let n = profile.len();
        let mut commands = Vec::new();
        let mut data = Vec::new();
        // header residuals
        let hlen = n.min(128);
        for i in 0..hlen {
            let p = predict_header(i, n as u32, &profile[..hlen]);
            data.push(profile[i].wrapping_sub(p));
        }
        let mut pos = hlen;
        if n > 128 {
            // tag list
            let num_tags = if n >= 132 { u32::from_be_bytes(profile[128..132].try_into().unwrap()) as usize } else { usize::MAX };
            let table_fits = num_tags != usize::MAX && 132 + num_tags * 12 <= n && (n as u64 - 128) / 12 >= num_tags as u64;
            if self.style == 2 && table_fits {
                varint(&mut commands, num_tags as u64 + 1);
                let mut prev_start = num_tags as u32 * 12 + 128;
                let mut prev_size = 0u32;
                for t in 0..num_tags {
                    let e = &profile[132 + t * 12..144 + t * 12];
                    let tag: [u8; 4] = e[0..4].try_into().unwrap();
                    let start = u32::from_be_bytes(e[4..8].try_into().unwrap());
                    let size = u32::from_be_bytes(e[8..12].try_into().unwrap());
                    // codes 2 and 3 expand to three tags: only use the single-tag codes
                    let common = (2..19usize).find(|&i| *COMMON_TAGS[i] == tag && rng.chance(2, 3));
                    let mut cmd = match common {
                        Some(i) => i as u8 + 2,
                        None => 1,
                    };
                    if common.is_none() {
                        data.extend_from_slice(&tag);
                    }
                    let implied_start = prev_start.wrapping_add(prev_size);
                    let explicit_start = start != implied_start || rng.chance(1, 4);
                    if explicit_start {
                        cmd |= 64;
                    }
                    let implied_size = match &tag {
                        b"rXYZ" | b"gXYZ" | b"bXYZ" | b"kXYZ" | b"wtpt" | b"bkpt" | b"lumi" => 20,
                        _ => prev_size,
                    };
                    let explicit_size = size != implied_size || rng.chance(1, 4);
                    if explicit_size {
                        cmd |= 128;
                    }
                    commands.push(cmd);
                    if explicit_start {
                        varint(&mut commands, start as u64);
                    }
                    if explicit_size {
                        varint(&mut commands, size as u64);
                    }
                    prev_start = start;
                    prev_size = size;
                }
                commands.push(0); // end of tag list
                pos = 132 + num_tags * 12;
            } else {
                varint(&mut commands, 0); // no tag list
            }
            // body
            while pos < n {
                let rest = n - pos;
                if self.style == 0 {
                    commands.push(1);
                    varint(&mut commands, rest as u64);
                    data.extend_from_slice(&profile[pos..]);
                    break;
                }
                // special forms when the profile has them here
                if rest >= 20 && &profile[pos..pos + 8] == b"XYZ \0\0\0\0" && rng.chance(2, 3) {
                    commands.push(10);
                    data.extend_from_slice(&profile[pos + 8..pos + 20]);
                    pos += 20;
                    continue;
                }
                if rest >= 8 && profile[pos + 4..pos + 8] == [0, 0, 0, 0] && rng.chance(2, 3) {
                    if let Some(i) = COMMON_DATA.iter().position(|d| **d == profile[pos..pos + 4]) {
                        commands.push(16 + i as u8);
                        pos += 8;
                        continue;
                    }
                }
                let len = (1 + rng.below(64) as usize).min(rest);
                let seg = &profile[pos..pos + len];
                match rng.below(6) {
                    0 | 1 => {
                        commands.push(1);
                        varint(&mut commands, len as u64);
                        data.extend_from_slice(seg);
                    }
                    2 => {
                        commands.push(2);
                        varint(&mut commands, len as u64);
                        data.extend_from_slice(&preshuffle(seg, 2));
                    }
                    3 => {
                        commands.push(3);
                        varint(&mut commands, len as u64);
                        data.extend_from_slice(&preshuffle(seg, 4));
                    }
                    _ => {
                        // order-0 predictor, width 1, optional explicit stride: out[i] = data[i] + out[i - stride]
                        let stride = if rng.chance(1, 2) { 1usize } else { 1 + rng.below(8) as usize };
                        if stride * 4 >= pos {
                            commands.push(1);
                            varint(&mut commands, len as u64);
                            data.extend_from_slice(seg);
                        } else {
                            commands.push(4);
                            if stride == 1 && rng.chance(1, 2) {
                                commands.push(0); // width 1, order 0, implied stride
                            } else {
                                commands.push(16);
                                varint(&mut commands, stride as u64);
                            }
                            varint(&mut commands, len as u64);
                            for i in 0..len {
                                let prev = profile[pos + i - stride];
                                data.push(profile[pos + i].wrapping_sub(prev));
                            }
                        }
                    }
                }
                pos += len;
            }
        }
        let mut out = Vec::new();
        varint(&mut out, n as u64);
        varint(&mut out, commands.len() as u64);
        out.extend_from_slice(&commands);
        out.extend_from_slice(&data);
        out
    }

    /// `enc_size`, the 41-context entropy coder header and the coded bytes.
    pub fn write(&self, w: &mut BitWriter, gray: bool) {
        let profile = self.profile(gray);
        let enc = self.encode_stream(&profile);
        let mut rng = Rng::new(self.seed ^ 0x1CC);
        w.u64(enc.len() as u64);
        let coder = Coder::random(&mut rng, 41, 255, false);
        coder.write_header(w);
        let (mut b1, mut b2) = (0u8, 0u8);
        for (idx, &b) in enc.iter().enumerate() {
            coder.write_value(w, icc_ctx(idx, b1, b2), b as u32);
            b2 = b1;
            b1 = b;
        }
        coder.end_session(w);
    }
}

fn icc_ctx(idx: usize, b1: u8, b2: u8) -> u32 {
    if idx <= 128 {
        return 0;
    }
    let p1 = match b1 {
        b'a'..=b'z' | b'A'..=b'Z' => 0,
        b'0'..=b'9' | b'.' | b',' => 1,
        0..=1 => 2 + b1 as u32,
        2..=15 => 4,
        241..=254 => 5,
        255 => 6,
        _ => 7,
    };
    let p2 = match b2 {
        b'a'..=b'z' | b'A'..=b'Z' => 0,
        b'0'..=b'9' | b'.' | b',' => 1,
        0..=15 => 2,
        241..=255 => 3,
        _ => 4,
    };
    1 + p1 + 8 * p2
}
