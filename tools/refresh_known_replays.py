#!/usr/bin/env python3
"""Re-runs every replay under replays/known/ and rewrites the recorded class with the class the
current harness assigns (class naming evolves: feature tags, panic call sites). Prints what changed
and which replays no longer reproduce (fixed findings are expected not to)."""
import glob, json, os, re, subprocess, sys
V = os.path.dirname(os.path.dirname(os.path.abspath(__file__)))
sys.path.insert(0, os.path.join(V, "tools"))
import build as B
bins = {"plain": B.build("plain"), "sched": B.build("sched")}
SCHED = {"c08", "c20"}
for p in sorted(glob.glob(f"{V}/replays/known/*.json")):
    v = json.load(open(p))
    if "seed_only" in json.dumps(v.get("scenario", {}))[:40]:
        continue
    b = bins["sched" if v.get("check") in SCHED else "plain"]
    r = subprocess.run([b, "replay", p], stdout=subprocess.PIPE, stderr=subprocess.STDOUT, text=True)
    m = re.search(r"class=(\S+)", r.stdout)
    name = os.path.basename(p)
    if r.returncode != 1 or not m:
        print(f"{name}: not reproduced ({r.stdout.strip()[-120:]})")
        continue
    if m.group(1) != v["class"]:
        print(f"{name}: {v['class']} -> {m.group(1)}")
        v["class"] = m.group(1)
        json.dump(v, open(p, "w"))
