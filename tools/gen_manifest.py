#!/usr/bin/env python3
"""Writes MANIFEST.json from the table below (kept in one place so it stays valid)."""
import json, os, subprocess
V = os.path.dirname(os.path.dirname(os.path.abspath(__file__)))

CLAIMED = {
    "C01": ("exploration", "seeded op-sequence simulation over hostile inputs: storage faults x delivery faults (chunking, Read-seam errors, continue-after-error) x allocation limit x call orders, with panic isolation, blocked-call watchdog and CPU-time deadlines",
            "Every public call C01 lists is driven in seeded orders over faulted generated streams, field extremes, the 60 regression files, the fixture, container layouts and random bytes; any panic (checked build), blocked call, deadline miss or abnormal worker exit is a violation with a minimised replay. Sampling only.",
            "Checked build (debug-assertions + overflow-checks). Hostile region rectangles are out of scope of C01 as stated. Known genuine defects are listed in known_findings.json by panic site + normalised message."),
    "C09": ("exploration", "seeded simulation of byte delivery (chunk schedules through the feed protocol, short reads through the Read seam) against a one-buffer reference decode",
            "Equality of every observable C09 names between a one-buffer decode and 3-6 seeded chunkings + 2 short-read runs per generated stream; samples the space of streams and chunkings, proves nothing beyond them.",
            "jxlgen (stub writer: Modular with prefix or ANS coding, enum/ICC colour encodings, patches, splines, VarDCT frames) produces the valid streams; one real fixture; the decoder's own one-buffer decode is the reference (self-consistency oracle). Half of the cases also drive the image-crate adapter (JxlDecoder) through the same short-read scripts."),
    "C10": ("exploration", "seeded simulation of byte delivery over generated container layouts with a ground-truth box model (fault kinds: chunk boundaries inside headers/index words/brob types, ill-formed layouts)",
            "Parser events (codestream bytes, aux box type/payload) compared with the generator's box table under 4-8 chunkings per layout, incl. always one cut inside every header; ill-formed layouts must be rejected under every chunking; image-level Exif/XML/render equality for real codestreams.",
            "The generator's box table is the ground truth. Brotli payloads are stored meta-blocks only."),
    "C11": ("fault_enumeration", "EOF fault injected at every byte offset of each generated stream (every prefix for streams <= 4 KiB) with progressive render attempts, then completion",
            "For each generated stream <= 4096 bytes every prefix length is exercised on one decoder (init/feed verdicts at each stop, render_loading_frame at each stop for streams <= 1500 bytes), plus single stops on fresh decoders; final result compared with the uncut decode. Enumeration is per stream; the space of streams is sampled.",
            "Need-more-data is recognised by error type. Streams come from jxlgen + one fixture."),
}

CLAIMED["C13"] = ("fault_enumeration", "allocation-fault injection (budget sweep and fail-from-k via hook H1) over seeded call histories with a budget-ledger reference model checked after every operation",
    "Budget ledger model (initial, +expand, -shrink) checked against the tracker after every operation of seeded histories under 4-10 allocation-fault positions per stream; conservation after drop-all checked with the hook counter and with the public API alone. Fault positions are sampled per-mille of the fault-free allocation count / peak.",
    "Hook H1 counters are trusted (16 lines, add-only). Pool none, single caller. Also checked: section bytes held <= tracked total after every op; a real-thread tracker stress leg (not replayable, stated); an image-crate adapter leg where a history of set_limits/read_rect calls must equal the same history without the rejected set_limits calls.")
CLAIMED["C07"] = ("exploration", "seeded task schedules through a simulated thread pool (hook H2) plus real rayon pools and concurrent callers, against a no-pool reference",
    "Bit-identical samples and identical Ok/Err verdicts across 6-32 seeded task-granular schedules per stream through the simulated pool (incl. deferred background renders), repetition, real pools of several sizes and concurrent callers. Sampling of schedules, task-granular.",
    "The simulated pool executes tasks atomically on one OS thread; overlapping-memory races are outside it (C02). Real-pool legs are not replayable (their oracle is); known finding F23 (timing-dependent deadlock of streams with patches on a real pool) is reported as KNOWN-FINDING and tolerated by the determinism self-test.")
CLAIMED["C08"] = ("fault_enumeration", "fail-the-k-th-tracked-allocation (hook H1) for sampled / every k of a render, followed by seeded post-failure call histories, all under the shuttle scheduler so that a wedged call is a detected deadlock",
    "For each program the fault position k ranges over 24 sampled values (quick) or every k < N (thorough); after the failure and after lifting the fault a seeded history of calls must all return and every Ok must equal a never-failed decode. Programs are sampled.",
    "Hook H1 (fault switch) and H3a (shuttle-owned Mutex/Condvar) are trusted. Single caller; the pool, when present, is either one shuttle thread per task or the rayon-like BoundedPool (1-2 workers, one queue, work stealing). Known finding F23 (patch stage blocks inside a pool task) is reported as KNOWN-FINDING.")
CLAIMED["C20"] = ("exploration", "2-3 caller threads on a shared image under shuttle's seeded random and PCT schedulers (hook H3), with and without an injected fault, against a sequential reference",
    "Seeded schedule search (random + PCT) over the synchronisation points of the render-handle protocol with 2-3 callers and optional background tasks; deadlock, lost wake-up (spurious error), disagreement with the sequential result and concurrent execution of one frame are violations. Sampling, not enumeration.",
    "Only shuttle-owned primitives are scheduling points; background tasks run on one shuttle thread each or on the rayon-like BoundedPool (1-3 workers). Known findings F5/F5b (reset() of an evicted base under a concurrent caller) and F23 (patch stage blocks inside a pool task) are reported as KNOWN-FINDING.")
CLAIMED["C06"] = ("exploration", "seeded histories of region-of-interest requests and renders on one long-lived decoder (state carried across requests) against a fresh full render",
    "Histories of 4-24 region requests / renders on one image per generated stream; each render compared with the rectangle of a fresh decoder's full render within 1e-6. The history dimension (caches and render handles surviving across requests) is what the simulation adds; inputs and rectangles are sampled.",
    "Self-consistency oracle (the decoder's own full render). Known findings F14b/F15/F16/F19/F24/F26 are reported as KNOWN-FINDING; the program-level shrinker attributes a failure to the features that are needed for it.")
CLAIMED["C05"] = ("exploration", "seeded histories of keyframe requests over generated multi-frame programs, checked against an executable reference compositor fed with separately decoded frames",
    "A small executable model (4 reference slots + the blend formulas + patches with their eight blend modes) is compared with every keyframe the library renders, over seeded multi-frame programs and seeded request histories (order, repetition). The history dimension (slots are stateful: blend() resets evicted handles, cached blends are reused) is what the simulation adds; inputs are sampled.",
    "Frames' own samples come from the library's decode of standalone streams. Known finding F14c is reported as KNOWN-FINDING.")
CLAIMED["C02"] = ("exploration", "simulated runs (op sequences x faults x configuration knobs, plus SIMD-tail width sweeps) executed under three detectors: an AddressSanitizer build and a MemorySanitizer build (instrumented std) on the real SIMD paths, and Miri's seeded preemptive scheduler with data-race detection on tiny programs",
    "The simulator supplies the executions (C01's scenarios plus tiny valid programs for Miri), a detector is the oracle: any AddressSanitizer / MemorySanitizer report or Miri error (out-of-bounds, use-after-free, uninitialised read, data race) is a violation attributed to the seed in flight and confirmed in a fresh process. Assurance: no report on the runs explored, nothing more.",
    "Miri without the experimental aliasing model and without VarDCT; Miri sees only the generic code paths; uninitialised reads on the SIMD paths are the MemorySanitizer leg's (every rendered sample buffer is passed to __msan_check_mem_is_initialized); aarch64/wasm kernels not covered.")
NOT_APPLICABLE = {}

def main():
    props = [json.loads(l) for l in open(f"{V}/properties.jsonl")]
    hooks_commits = subprocess.run(["git", "-C", "/repo", "log", "--format=%h %s"], capture_output=True, text=True).stdout.splitlines()
    hook_commits = [l.split()[0] for l in hooks_commits if l.split(" ", 1)[1].startswith("verif hook")]
    checks = []
    for pid, (level, technique, text, note) in CLAIMED.items():
        checks.append({
            "property_id": pid,
            "quick_cmd": f"./check {pid} --tier quick",
            "thorough_cmd": f"./check {pid} --tier thorough",
            "evidence_file": f"/verif/evidence/{pid}.json",
            "replay_cmd_template": f"./check {pid} --replay {{path}}",
            "engine": "jxlsim",
            "level_claimed": {"category": level, "text": text, "design_ref": f"DESIGN.md §4 {pid}"},
            "level_note": note,
            "technique": "deterministic simulation with fault injection: " + technique,
        })
    na = json.load(open(f"{V}/tools/not_applicable.json"))
    claimed = set(CLAIMED)
    not_applicable = [{"property_id": p["id"], "reason": na[p["id"]]} for p in props if p["id"] not in claimed]
    m = {
        "version": 1,
        "setup_cmd": "python3 tools/build.py plain sched asan msan miri",
        "hooks": {
            "guard": "--cfg jxl_oxide_verif (H1 alloc counters/fail-from-k, H2 simulated thread pool, H3b render probe) and --cfg jxl_oxide_verif_shuttle (H3a: render-handle Mutex/Condvar from shuttle)",
            "enable": "RUSTFLAGS='--cfg jxl_oxide_verif' via tools/build.py; --cfg jxl_oxide_verif_shuttle only builds through the shadow manifests generated under /verif/shadow (shuttle is not a dependency of the repository)",
            "baseline_off_cmd": "cd /repo && cargo test --workspace --no-fail-fast --offline",
            "source_commits": hook_commits,
            "add_only": True,
        },
        "engines": [
            {"name": "jxlsim", "path": "/verif/sim", "serves_properties": sorted(claimed),
             "kind_free_text": "single-process deterministic simulator: seeded stream writer (jxlgen), byte-delivery seams (feed driver, SimReader/SimWriter), storage faults, allocation faults (H1), simulated task pool (H2), shuttle-scheduled caller threads (H3); driver ./check shards seeds over 16 worker processes"},
        ],
        "checks": checks,
        "not_applicable": not_applicable,
        "notes": "See DESIGN.md. Exit codes of ./check: 0 held / 1 violation (VIOLATION line) / 2 harness error. known_findings.json lists genuine defects (fixed or recorded).",
    }
    json.dump(m, open(f"{V}/MANIFEST.json", "w"), indent=1)

if __name__ == "__main__":
    main()
