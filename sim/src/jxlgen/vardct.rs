//! Minimal VarDCT frame writer ("stage 2": reach, not correctness).
//!
//! Default dequantisation matrices and HF block context, no custom coefficient orders, every HF
//! context clustered to one distribution (so the writer never needs the decoder's context model),
//! random varblock tiling with any of the 27 transform types that fit, sparse random HF
//! coefficients, LF via a Modular sub-image, per-block EPF sharpness, chroma-from-luma factors.
//! Pixels have no ground truth: VarDCT streams are only ever compared with themselves.
use super::entropy::{Coder, IntConfig, PrefixCode};
use super::*;
use crate::bits::{BitWriter, pack_signed};
use crate::rng::Rng;

#[derive(Clone, Debug, Serialize, Deserialize)]
pub struct VarDctSpec {
    pub global_scale: u32,
    pub quant_lf: u32,
    pub x_qm_scale: u32,
    pub b_qm_scale: u32,
    /// largest transform allowed: 0 = 8x8 family only, 1 = up to 32x32, 2 = up to 64x64, 3 = all
    pub max_transform_class: u32,
    /// per-mille of coefficient positions that are non-zero
    pub density: u32,
    pub max_coeff: u32,
    pub max_hf_mul: u32,
    pub lf_range: i32,
    pub num_hf_presets: u32,
    pub skip_adaptive_lf_smoothing: bool,
    pub seed: u64,
    /// the LF coefficients come from the preceding LF frame (level 1) instead of the LF groups
    #[serde(default)]
    pub use_lf_frame: bool,
}

impl VarDctSpec {
    pub fn random(rng: &mut Rng) -> Self {
        Self {
            global_scale: *rng.pick(&[1u32, 100, 2048, 3000, 40000]),
            quant_lf: *rng.pick(&[16u32, 1, 20, 300]),
            x_qm_scale: rng.below(8) as u32,
            b_qm_scale: rng.below(8) as u32,
            max_transform_class: *rng.pick(&[0u32, 0, 1, 1, 2, 3]),
            density: *rng.pick(&[0u32, 5, 30, 100, 400]),
            max_coeff: *rng.pick(&[1u32, 4, 40]),
            max_hf_mul: *rng.pick(&[1u32, 4, 30]),
            lf_range: *rng.pick(&[0i32, 8, 64, 400]),
            num_hf_presets: 1,
            skip_adaptive_lf_smoothing: rng.chance(1, 2),
            seed: rng.next_u64(),
            use_lf_frame: false,
        }
    }
}

/// (id, blocks wide, blocks high, class)
const TRANSFORMS: [(u32, u32, u32, u32); 27] = [
    (0, 1, 1, 0),
    (1, 1, 1, 0),
    (2, 1, 1, 0),
    (3, 1, 1, 0),
    (4, 2, 2, 1),
    (5, 4, 4, 1),
    (6, 1, 2, 1),
    (7, 2, 1, 1),
    (8, 1, 4, 1),
    (9, 4, 1, 1),
    (10, 2, 4, 1),
    (11, 4, 2, 1),
    (12, 1, 1, 0),
    (13, 1, 1, 0),
    (14, 1, 1, 0),
    (15, 1, 1, 0),
    (16, 1, 1, 0),
    (17, 1, 1, 0),
    (18, 8, 8, 2),
    (19, 4, 8, 2),
    (20, 8, 4, 2),
    (21, 16, 16, 3),
    (22, 8, 16, 3),
    (23, 16, 8, 3),
    (24, 32, 32, 3),
    (25, 16, 32, 3),
    (26, 32, 16, 3),
];

#[derive(Clone, Debug)]
pub struct Block {
    pub ty: u32,
    pub x: u32,
    pub y: u32,
    pub w: u32,
    pub h: u32,
    pub mul: u32,
}

/// Random valid varblock tiling of a `bw` x `bh` block grid, in the decoder's discovery order.
pub fn tile_blocks(rng: &mut Rng, bw: u32, bh: u32, vd: &VarDctSpec) -> Vec<Block> {
    let mut occupied = vec![false; (bw * bh) as usize];
    let mut out = Vec::new();
    for y in 0..bh {
        for x in 0..bw {
            if occupied[(y * bw + x) as usize] {
                continue;
            }
            // candidates that fit
            let mut pick = TRANSFORMS[0];
            for _ in 0..4 {
                let t = *rng.pick(&TRANSFORMS);
                let (_, dw, dh, class) = t;
                if class > vd.max_transform_class {
                    continue;
                }
                if x % 32 + dw > 32 || y % 32 + dh > 32 || x + dw > bw || y + dh > bh {
                    continue;
                }
                let free = (0..dh).all(|dy| (0..dw).all(|dx| !occupied[((y + dy) * bw + x + dx) as usize]));
                if free {
                    pick = t;
                    break;
                }
            }
            let (ty, dw, dh, _) = pick;
            for dy in 0..dh {
                for dx in 0..dw {
                    occupied[((y + dy) * bw + x + dx) as usize] = true;
                }
            }
            out.push(Block { ty, x, y, w: dw, h: dh, mul: rng.below(vd.max_hf_mul as u64) as u32 });
        }
    }
    out
}

/// A Modular sub-image with explicit samples: header (local single-leaf Zero tree) + values.
fn write_explicit_modular(w: &mut BitWriter, rng: &mut Rng, channels: &[Vec<i32>]) {
    let maxv = channels.iter().flatten().map(|v| pack_signed(*v)).max().unwrap_or(0).max(1);
    w.bool(false); // use_global_tree
    w.bool(true); // default wp
    w.w(0, 2); // nb_transforms = 0
    // local tree: single leaf, Zero predictor
    let tree_coder = Coder::all_zero(6);
    tree_coder.write_header(w);
    for ctx in [1u32, 2, 3, 4, 5] {
        tree_coder.write_value(w, ctx, 0);
    }
    tree_coder.end_session(w);
    let coder = Coder::random(rng, 1, maxv, false);
    coder.write_header(w);
    for ch in channels {
        for v in ch {
            coder.write_value(w, 0, pack_signed(*v));
        }
    }
    coder.end_session(w);
}

pub struct LfGroupGeom {
    pub lw: u32,
    pub lh: u32,
    pub bw: u32,
    pub bh: u32,
    pub col: u32,
    pub row: u32,
}

pub fn lf_group_geom(cw: u32, ch: u32, idx: u32) -> LfGroupGeom {
    let per_row = cw.div_ceil(2048);
    let col = idx % per_row;
    let row = idx / per_row;
    let lw = (cw - col * 2048).min(2048);
    let lh = (ch - row * 2048).min(2048);
    LfGroupGeom { lw, lh, bw: lw.div_ceil(8), bh: lh.div_ceil(8), col, row }
}

impl Program {
    pub(crate) fn vardct_lf_global(&self, w: &mut BitWriter, vd: &VarDctSpec) {
        // Quantizer
        w.u32([(1, 11), (2049, 11), (4097, 12), (8193, 16)], vd.global_scale, None);
        w.u32([(16, 0), (1, 5), (1, 8), (1, 16)], vd.quant_lf, None);
        // HfBlockContext: default
        w.bool(true);
        // LfChannelCorrelation: all default
        w.bool(true);
    }

    /// LfCoeff part of an LF group section.
    pub(crate) fn vardct_lf_coeff(&self, w: &mut BitWriter, rng: &mut Rng, vd: &VarDctSpec, g: &LfGroupGeom) {
        w.w(rng.below(4), 2); // extra_precision
        let n = (g.bw * g.bh) as usize;
        let chans: Vec<Vec<i32>> = (0..3)
            .map(|_| (0..n).map(|_| if vd.lf_range == 0 { 0 } else { rng.range(-(vd.lf_range as i64), vd.lf_range as i64) as i32 }).collect())
            .collect();
        write_explicit_modular(w, rng, &chans);
    }

    /// HfMetadata part of an LF group section; returns the varblocks of the group.
    pub(crate) fn vardct_hf_metadata(&self, w: &mut BitWriter, rng: &mut Rng, vd: &VarDctSpec, g: &LfGroupGeom) -> Vec<Block> {
        let blocks = tile_blocks(rng, g.bw, g.bh, vd);
        let nbits = (g.bw * g.bh).next_power_of_two().trailing_zeros();
        w.w(blocks.len() as u64 - 1, nbits);
        let cfl_n = (g.lw.div_ceil(64) * g.lh.div_ceil(64)) as usize;
        let x_from_y: Vec<i32> = (0..cfl_n).map(|_| rng.range(-10, 10) as i32).collect();
        let b_from_y: Vec<i32> = (0..cfl_n).map(|_| rng.range(-10, 10) as i32).collect();
        let mut info: Vec<i32> = blocks.iter().map(|b| b.ty as i32).collect();
        info.extend(blocks.iter().map(|b| b.mul as i32));
        let sharp: Vec<i32> = (0..(g.bw * g.bh) as usize).map(|_| rng.below(8) as i32).collect();
        write_explicit_modular(w, rng, &[x_from_y, b_from_y, info, sharp]);
        blocks
    }

    /// HfGlobal section; returns the coefficient coder shared by all pass groups.
    pub(crate) fn vardct_hf_global(&self, w: &mut BitWriter, rng: &mut Rng, vd: &VarDctSpec, num_groups: u32, num_passes: u32) -> Coder {
        w.bool(true); // dequant matrices: all default
        let bits = num_groups.next_power_of_two().trailing_zeros();
        w.w((vd.num_hf_presets - 1) as u64, bits);
        // one coder for every pass (written once per pass)
        let num_dist = 495 * vd.num_hf_presets * 15;
        let maxv = (vd.max_coeff * 2 + 1).max(63 * 1024); // must encode non_zeros counts (up to 63 per 8x8 block of a 256x256 varblock) as well
        let config = IntConfig { split_exponent: 4, msb: 1, lsb: 0 };
        let max_tok = config.max_token(maxv);
        let toks: Vec<u32> = (0..=max_tok).collect();
        let code = PrefixCode::random(rng, &toks);
        let coder = Coder {
            num_dist,
            lz77: None,
            cluster_map: vec![0; num_dist as usize],
            map_form: super::entropy::ClusterMapForm::Simple(0),
            configs: vec![config],
            codes: vec![code],
            max_value: maxv,
            ans: None,
            pending: Default::default(),
        };
        for _ in 0..num_passes {
            w.u32([(0x5f, 0), (0x13, 0), (0, 0), (0, 13)], 0, Some(2)); // used_orders = 0
            coder.write_header(w);
        }
        coder
    }

    /// HF coefficients of one pass group: `blocks` are the varblocks whose top-left block lies in
    /// the group, in raster order.
    pub(crate) fn vardct_pass_group(&self, w: &mut BitWriter, rng: &mut Rng, vd: &VarDctSpec, coder: &Coder, blocks: &[&Block]) {
        let hfp_bits = vd.num_hf_presets.next_power_of_two().trailing_zeros();
        w.w(0, hfp_bits);
        for b in blocks {
            let nb = b.w * b.h;
            let positions = 63 * nb;
            for _c in 0..3 {
                // choose the non-zero positions
                let mut nz_pos: Vec<u32> = Vec::new();
                if vd.density > 0 {
                    for p in 0..positions {
                        if rng.below(1000) < vd.density as u64 {
                            nz_pos.push(p);
                        }
                    }
                }
                let nz = nz_pos.len() as u32;
                coder.write_value(w, 0, nz);
                if nz == 0 {
                    continue;
                }
                let last = *nz_pos.last().unwrap();
                let mut it = nz_pos.iter().peekable();
                for p in 0..=last {
                    if it.peek().map(|&&q| q == p).unwrap_or(false) {
                        it.next();
                        let mag = 1 + rng.below(vd.max_coeff as u64) as i32;
                        let v = if rng.chance(1, 2) { mag } else { -mag };
                        coder.write_value(w, 0, pack_signed(v));
                    } else {
                        coder.write_value(w, 0, 0);
                    }
                }
            }
        }
        coder.end_session(w);
    }
}
