//! LSB-first bit writer matching `jxl_bitstream::Bitstream`.

#[derive(Clone, Debug, Default)]
pub struct BitWriter {
    pub bytes: Vec<u8>,
    nbits: usize,
}

impl BitWriter {
    pub fn new() -> Self {
        Self::default()
    }

    #[inline]
    pub fn w(&mut self, v: u64, n: u32) {
        debug_assert!(n <= 64);
        debug_assert!(n == 64 || v >> n == 0, "value {v} does not fit in {n} bits");
        for i in 0..n {
            let bit = ((v >> i) & 1) as u8;
            if self.nbits % 8 == 0 {
                self.bytes.push(0);
            }
            let last = self.bytes.len() - 1;
            self.bytes[last] |= bit << (self.nbits % 8);
            self.nbits += 1;
        }
    }

    /// Writes `n` bits of `v` most-significant first (prefix-code symbols).
    #[inline]
    pub fn w_msb(&mut self, v: u64, n: u32) {
        for i in (0..n).rev() {
            self.w((v >> i) & 1, 1);
        }
    }

    pub fn bool(&mut self, b: bool) {
        self.w(b as u64, 1);
    }

    pub fn pad(&mut self) {
        while self.nbits % 8 != 0 {
            self.w(0, 1);
        }
    }

    pub fn bit_len(&self) -> usize {
        self.nbits
    }

    pub fn byte_len(&self) -> usize {
        self.bytes.len()
    }

    /// U32 with four alternatives, each `(offset, nbits)`; picks the first that can hold `v`
    /// unless `force_sel` is given.
    pub fn u32(&mut self, alts: [(u32, u32); 4], v: u32, force_sel: Option<usize>) {
        let fits = |i: usize| {
            let (off, n) = alts[i];
            v >= off && ((v - off) as u64) < (1u64 << n)
        };
        let sel = match force_sel {
            Some(s) if fits(s) => s,
            _ => (0..4).find(|&i| fits(i)).unwrap_or_else(|| panic!("U32: {v} not representable in {alts:?}")),
        };
        self.w(sel as u64, 2);
        let (off, n) = alts[sel];
        self.w((v - off) as u64, n);
    }

    pub fn u64(&mut self, v: u64) {
        if v == 0 {
            self.w(0, 2);
        } else if v <= 16 {
            self.w(1, 2);
            self.w(v - 1, 4);
        } else if v <= 272 {
            self.w(2, 2);
            self.w(v - 17, 8);
        } else {
            self.w(3, 2);
            self.w(v & 0xfff, 12);
            let mut rest = v >> 12;
            let mut shift = 12;
            while rest != 0 {
                self.w(1, 1);
                if shift == 60 {
                    self.w(rest & 0xf, 4);
                    return;
                }
                self.w(rest & 0xff, 8);
                rest >>= 8;
                shift += 8;
            }
            self.w(0, 1);
        }
    }

    /// Enum: U32(0, 1, 2+u(4), 18+u(6))
    pub fn enum_(&mut self, v: u32) {
        self.u32([(0, 0), (1, 0), (2, 4), (18, 6)], v, None);
    }

    /// IEEE half from f32 (round toward zero on mantissa; inputs are chosen representable).
    pub fn f16(&mut self, f: f32) {
        self.w(f32_to_f16_bits(f) as u64, 16);
    }

    pub fn name(&mut self, s: &str) {
        let len = s.len() as u32;
        self.u32([(0, 0), (0, 4), (16, 5), (48, 10)], len, None);
        for b in s.bytes() {
            self.w(b as u64, 8);
        }
    }

    pub fn append(&mut self, other: &BitWriter) {
        // bit-granular append
        let full = other.nbits / 8;
        for &b in &other.bytes[..full] {
            self.w(b as u64, 8);
        }
        let rem = other.nbits % 8;
        if rem != 0 {
            self.w((other.bytes[full] & ((1u8 << rem) - 1)) as u64, rem as u32);
        }
    }

    pub fn finish(mut self) -> Vec<u8> {
        self.pad();
        self.bytes
    }
}

pub fn pack_signed(v: i32) -> u32 {
    if v >= 0 { (v as u32) << 1 } else { (((-(v as i64)) as u32) << 1) - 1 }
}

pub fn f32_to_f16_bits(f: f32) -> u16 {
    let bits = f.to_bits();
    let sign = ((bits >> 16) & 0x8000) as u16;
    let exp = ((bits >> 23) & 0xff) as i32;
    let man = bits & 0x7fffff;
    if exp == 0 {
        return sign;
    }
    let e = exp - 127 + 15;
    if e >= 0x1f {
        // clamp to max finite
        return sign | 0x7bff;
    }
    if e <= 0 {
        // subnormal half
        if e < -10 {
            return sign;
        }
        let m = (man | 0x800000) >> (1 - e + 13);
        return sign | m as u16;
    }
    sign | ((e as u16) << 10) | (man >> 13) as u16
}
