//! serde helper: Vec<u8> as a hex string (replay files materialise stream bytes).
use serde::{Deserialize, Deserializer, Serializer};

pub fn to_hex(b: &[u8]) -> String {
    const H: &[u8; 16] = b"0123456789abcdef";
    let mut s = String::with_capacity(b.len() * 2);
    for &x in b {
        s.push(H[(x >> 4) as usize] as char);
        s.push(H[(x & 15) as usize] as char);
    }
    s
}

pub fn from_hex(s: &str) -> Result<Vec<u8>, String> {
    let b = s.as_bytes();
    if b.len() % 2 != 0 {
        return Err("odd hex length".into());
    }
    let v = |c: u8| -> Result<u8, String> {
        match c {
            b'0'..=b'9' => Ok(c - b'0'),
            b'a'..=b'f' => Ok(c - b'a' + 10),
            b'A'..=b'F' => Ok(c - b'A' + 10),
            _ => Err("bad hex".into()),
        }
    };
    (0..b.len() / 2).map(|i| Ok(v(b[2 * i])? << 4 | v(b[2 * i + 1])?)).collect()
}

pub fn serialize<S: Serializer>(b: &Vec<u8>, s: S) -> Result<S::Ok, S::Error> {
    s.serialize_str(&to_hex(b))
}

pub fn deserialize<'de, D: Deserializer<'de>>(d: D) -> Result<Vec<u8>, D::Error> {
    let s = String::deserialize(d)?;
    from_hex(&s).map_err(serde::de::Error::custom)
}
