//! C01 — decoding untrusted bytes is total: Ok or Err, never panic, abort or hang.
use crate::harness::{Stats, Tier, Violation, thread_cpu_secs};
use crate::jxlgen::random::{GenConfig, extreme_program, random_program};
use crate::rng::{Rng, derive};
use crate::simio::{ALL_CHUNK_KINDS, ChunkKind, ChunkSchedule, FeedDriver, ReadFault, SimReader, SimWriter, StorageFault, WriteFault};
use jxl_oxide::{AllocTracker, CropInfo, EnumColourEncoding, InitializeResult, JxlImage, JxlThreadPool, RenderingIntent, UninitializedJxlImage};
use serde::{Deserialize, Serialize};

#[derive(Clone, Debug, Serialize, Deserialize)]
pub enum Op {
    TryInit,
    Finalize,
    Render(usize),
    RenderAll,
    RenderLoading,
    SetRegion(u32, u32, u32, u32),
    RequestColor(u32),
    RequestIcc(u32),
    Meta,
    FrameInfo(usize),
    AuxBoxes,
    ReconstructJpeg(Vec<Option<WriteFault>>),
    /// render keyframe k and drain every accessor into buffers of awkward lengths
    RenderAccessors(usize, usize),
}

#[derive(Clone, Debug, Serialize, Deserialize)]
pub enum Step {
    Deliver(usize),
    Op(Op),
}

#[derive(Clone, Debug, Serialize, Deserialize)]
pub enum Delivery {
    Feed,
    Read(Vec<Option<ReadFault>>),
}

#[derive(Clone, Debug, Serialize, Deserialize)]
pub struct Scenario {
    #[serde(with = "crate::hexbytes")]
    pub bytes: Vec<u8>,
    pub origin: String,
    pub faults: Vec<String>,
    pub delivery: Delivery,
    pub steps: Vec<Step>,
    pub alloc_limit: usize,
    pub keep_feeding_after_error: bool,
    pub dim_cap: u32,
    /// 0 = no pool; n > 0 = real rayon pool with n threads (used by C02)
    #[serde(default)]
    pub pool_threads: usize,
    #[serde(default)]
    pub force_wide: bool,
}

const FUZZ_DIR: &str = "/repo/crates/jxl-oxide-tests/tests/fuzz_findings";

fn regression_files() -> Vec<std::path::PathBuf> {
    let mut v: Vec<_> = std::fs::read_dir(FUZZ_DIR)
        .map(|d| d.filter_map(|e| e.ok()).map(|e| e.path()).filter(|p| p.extension().map(|x| x == "fuzz").unwrap_or(false)).collect())
        .unwrap_or_default();
    v.sort();
    v
}

fn random_op(rng: &mut Rng) -> Op {
    match rng.below(16) {
        0 => Op::TryInit,
        1 => Op::Finalize,
        2 | 3 => Op::Render(rng.below(4) as usize),
        4 => Op::RenderAll,
        5 | 6 => Op::RenderLoading,
        7 => {
            // region inside the image, in 1/16ths of its size (C01 does not quantify over hostile
            // rectangles; C06 quantifies over rectangles inside the image)
            let l = rng.below(16) as u32;
            let t = rng.below(16) as u32;
            Op::SetRegion(l, t, 1 + rng.below((16 - l) as u64) as u32, 1 + rng.below((16 - t) as u64) as u32)
        }
        8 => Op::RequestColor(rng.below(12) as u32),
        9 => Op::RequestIcc(rng.below(5) as u32),
        10 => Op::Meta,
        11 => Op::FrameInfo(rng.below(5) as usize),
        12 => Op::AuxBoxes,
        13 => Op::ReconstructJpeg((0..rng.usize_in(0, 6)).map(|_| if rng.chance(1, 2) { Some(match rng.below(4) { 0 => WriteFault::Short(1), 1 => WriteFault::Interrupted, 2 => WriteFault::Error, _ => WriteFault::Zero }) } else { None }).collect()),
        _ => Op::RenderAccessors(rng.below(3) as usize, *rng.pick(&[0usize, 1, 2, 3, 5, 7, 64, 1000])),
    }
}

pub fn generate(seed: u64, tier: Tier) -> Scenario {
    let _ = tier;
    let mut rng = Rng::new(derive(seed, 1, 0));
    // ---- input
    let mut faults = Vec::new();
    let (mut bytes, origin, regions): (Vec<u8>, String, Vec<(usize, usize)>) = match rng.below(20) {
        0..=8 => {
            // generated stream (all features, incl. the constructs the other checks avoid)
            let mut cfg = if rng.chance(1, 6) { GenConfig::medium() } else { GenConfig::small() }.swarm(&mut rng);
            cfg.safe = false;
            cfg.vardct = rng.chance(1, 3);
            let prog = random_program(&mut rng, &cfg);
            match prog.encode() {
                Ok((b, m)) => {
                    let mut regions = vec![(0, m.header_end.max(1))];
                    for f in &m.frames {
                        regions.push((f.start, f.data_start));
                        for &(o, s) in f.sections.iter().take(3) {
                            regions.push((o, o + s.min(48)));
                        }
                    }
                    (b, "jxlgen".into(), regions)
                }
                Err(_) => (vec![0xff, 0x0a], "jxlgen-unencodable".into(), vec![]),
            }
        }
        9..=11 => {
            let prog = extreme_program(&mut rng);
            match prog.encode() {
                Ok((b, m)) => (b, "jxlgen-extreme".into(), vec![(0, m.header_end.max(1))]),
                Err(_) => (vec![0xff, 0x0a, 0], "jxlgen-extreme-unencodable".into(), vec![]),
            }
        }
        12..=15 => {
            let files = regression_files();
            if files.is_empty() {
                (vec![0xff, 0x0a], "none".into(), vec![])
            } else {
                let p = rng.pick(&files).clone();
                let b = std::fs::read(&p).unwrap_or_default();
                let n = b.len();
                (b, format!("regression:{}", p.file_stem().unwrap().to_string_lossy()), vec![(0, n.min(64))])
            }
        }
        16 => {
            let b = std::fs::read(crate::checks::common::FIXTURE).unwrap_or_default();
            (b, "fixture".into(), vec![(0, 64), (41, 60), (60, 2000)])
        }
        17 => {
            // container around a generated stream
            let cfg = GenConfig { max_dim: 32, max_pixels: 32 * 32, safe: false, ..GenConfig::small() }.swarm(&mut rng);
            let prog = random_program(&mut rng, &cfg);
            let cs = prog.encode().map(|x| x.0).unwrap_or_else(|_| vec![0xff, 0x0a]);
            let mut spec = crate::jxlgen::container::random_container(&mut rng, &cs, &[]);
            if rng.chance(1, 3) {
                let ill = *rng.pick(&crate::jxlgen::container::ALL_ILL);
                crate::jxlgen::container::make_ill(&mut spec, ill, &mut rng);
            }
            let (b, m) = spec.encode(rng.next_u64());
            let regions = m.boxes.iter().map(|x| (x.0, x.2 + 4)).collect();
            (b, "jxlgen+container".into(), regions)
        }
        _ => {
            let n = *rng.pick(&[0usize, 1, 2, 3, 16, 200, 3000]);
            let mut b: Vec<u8> = (0..n).map(|_| rng.next_u32() as u8).collect();
            if rng.chance(3, 4) && b.len() >= 2 {
                b[0] = 0xff;
                b[1] = 0x0a;
            }
            (b, "random".into(), vec![])
        }
    };
    let nfaults = match rng.below(10) {
        0..=2 => 0,
        3..=6 => 1,
        7 | 8 => rng.usize_in(2, 4),
        _ => rng.usize_in(5, 8),
    };
    for _ in 0..nfaults {
        let f = StorageFault::random(&mut rng, bytes.len(), &regions);
        if f.apply(&mut bytes) {
            faults.push(f.kind().to_string());
        }
    }
    // ---- delivery and steps
    let len = bytes.len();
    let read = rng.chance(1, 5);
    let delivery = if read {
        let calls = rng.usize_in(1, 40);
        Delivery::Read(
            (0..calls)
                .map(|_| {
                    if rng.chance(1, 3) {
                        Some(match rng.below(8) {
                            0..=3 => ReadFault::Short(*rng.pick(&[1usize, 2, 7, 100])),
                            4 => ReadFault::Interrupted,
                            5 => ReadFault::WouldBlock,
                            6 => ReadFault::Error,
                            _ => ReadFault::Eof,
                        })
                    } else {
                        None
                    }
                })
                .collect(),
        )
    } else {
        Delivery::Feed
    };
    let mut steps = Vec::new();
    if !read {
        let kind = *rng.pick(&ALL_CHUNK_KINDS);
        let kind = if kind == ChunkKind::OneByte && len > 3000 { ChunkKind::Geometric } else { kind };
        let mut sched = ChunkSchedule::random(&mut rng, kind, len, &regions.iter().map(|r| r.0).collect::<Vec<_>>(), &[]);
        if sched.sizes.len() > 400 {
            let g = sched.sizes.len().div_ceil(400);
            sched.sizes = sched.sizes.chunks(g).map(|c| c.iter().sum()).collect();
        }
        let p_op = *rng.pick(&[0u64, 5, 20, 50]);
        for n in sched.sizes {
            steps.push(Step::Deliver(n));
            steps.push(Step::Op(Op::TryInit));
            if rng.below(100) < p_op && steps.len() < 600 {
                steps.push(Step::Op(random_op(&mut rng)));
            }
        }
    }
    steps.push(Step::Op(Op::Finalize));
    let tail = rng.usize_in(2, 10);
    for _ in 0..tail {
        steps.push(Step::Op(random_op(&mut rng)));
    }
    steps.push(Step::Op(Op::RenderAll));
    if rng.chance(1, 3) {
        // keep going after the final render: feed garbage after the end, render again
        steps.push(Step::Deliver(0));
        steps.push(Step::Op(random_op(&mut rng)));
        steps.push(Step::Op(Op::Render(0)));
    }
    let alloc_limit = match rng.below(10) {
        0..=5 => 128 << 20,
        6 => 0,
        7 => rng.below(20_000) as usize,
        8 => rng.below(2_000_000) as usize,
        _ => rng.below(64 << 20) as usize,
    };
    Scenario { bytes, origin, faults, delivery, steps, alloc_limit, keep_feeding_after_error: rng.chance(2, 3), dim_cap: 65536, pool_threads: 0, force_wide: false }
}

pub fn digest(sc: &Scenario) -> u64 {
    let mut h = crate::harness::Fnv::new();
    h.write(&sc.bytes);
    h.write(format!("{:?}{:?}{}", sc.steps, sc.delivery, sc.alloc_limit).as_bytes());
    h.finish()
}

fn viol(seed: u64, sc: &Scenario, class: String, detail: String) -> Violation {
    Violation { property: "C01".into(), check: "c01".into(), class, detail, seed, scenario: serde_json::to_value(sc).unwrap() }
}

enum State {
    Uninit(Option<UninitializedJxlImage>),
    Ready(Box<JxlImage>),
    Dead,
}

fn color_encoding(i: u32) -> EnumColourEncoding {
    let intent = [RenderingIntent::Perceptual, RenderingIntent::Relative, RenderingIntent::Saturation, RenderingIntent::Absolute][(i % 4) as usize];
    match i {
        0 => EnumColourEncoding::srgb(intent),
        1 => EnumColourEncoding::srgb_linear(intent),
        2 => EnumColourEncoding::srgb_gamma22(intent),
        3 => EnumColourEncoding::gray_srgb(intent),
        4 => EnumColourEncoding::gray_gamma22(intent),
        5 => EnumColourEncoding::bt709(intent),
        6 => EnumColourEncoding::dci_p3(intent),
        7 => EnumColourEncoding::display_p3(intent),
        8 => EnumColourEncoding::display_p3_pq(intent),
        9 => EnumColourEncoding::bt2100_pq(intent),
        10 => EnumColourEncoding::bt2100_hlg(intent),
        _ => EnumColourEncoding::xyb(intent),
    }
}

fn has_splines(img: &JxlImage) -> bool {
    (0..img.num_loaded_frames() + 1).any(|i| img.frame(i).map(|f| f.header().flags.splines()).unwrap_or(false))
}

fn too_big(img: &JxlImage, cap: u32) -> bool {
    let h = img.image_header();
    h.size.width.max(h.size.height) > cap
}

/// `buf_grouped::<N>()` is documented to panic unless N is the channel count; what it must never do
/// is hand out a slice longer than the buffer (added after seeded mutation `c02-m3`, which turned
/// the length assertion into a debug assertion: an over-long slice in optimised builds). The first
/// and last pixel of the slice are read, so the sanitizer legs of C02 see an over-long one.
fn touch_grouped<const N: usize>(fb: &jxl_oxide::FrameBuffer) {
    let _ = std::panic::catch_unwind(std::panic::AssertUnwindSafe(|| {
        let g = fb.buf_grouped::<N>();
        if let (Some(a), Some(b)) = (g.first(), g.last()) {
            crate::harness::touch_samples(a);
            crate::harness::touch_samples(b);
        }
    }));
}

fn drain_render(r: &jxl_oxide::Render, awkward: usize) {
    let fb = r.image_all_channels();
    crate::harness::touch_samples(fb.buf());
    // the documented N always; one other N (the documented panic) in a quarter of the drains
    let wrong = if awkward % 4 == 0 { 1 + (awkward / 4 + fb.width() + fb.height()) % 8 } else { fb.channels() };
    for n in [fb.channels(), wrong] {
        match n {
            1 => touch_grouped::<1>(&fb),
            2 => touch_grouped::<2>(&fb),
            3 => touch_grouped::<3>(&fb),
            4 => touch_grouped::<4>(&fb),
            5 => touch_grouped::<5>(&fb),
            6 => touch_grouped::<6>(&fb),
            7 => touch_grouped::<7>(&fb),
            8 => touch_grouped::<8>(&fb),
            _ => {}
        }
    }
    let _ = (fb.width(), fb.height(), fb.channels(), fb.buf().len());
    let planar = r.image_planar();
    let _ = planar.len();
    let _ = (r.keyframe_index(), r.name().len(), r.duration(), r.orientation());
    let _ = r.color_channels().len();
    let _ = r.extra_channels().0.len();
    for no_alpha in [false, true] {
        let mut s = if no_alpha { r.stream_no_alpha() } else { r.stream() };
        let (w, c) = (s.width() as usize, s.channels() as usize);
        let total = w * s.height() as usize * c;
        let lens = [awkward, w.saturating_sub(1), w * c + 1];
        let mut done = 0usize;
        let mut i = 0;
        let mut buf8 = vec![0u8; lens.iter().copied().max().unwrap_or(1).max(1)];
        while done < total && i < 100_000 {
            let n = lens[i % 3].min(buf8.len());
            let wrote = s.write_to_buffer::<u8>(&mut buf8[..n]);
            if wrote == 0 && n > 0 {
                break;
            }
            if n == 0 {
                // zero-length buffer must not spin
                let _ = s.write_to_buffer::<u8>(&mut []);
                i += 1;
                if lens.iter().all(|&l| l == 0) {
                    break;
                }
                continue;
            }
            done += wrote;
            i += 1;
        }
        let mut s16 = r.stream();
        let mut b16 = vec![0u16; (w * c + 1).min(1 << 16)];
        let _ = s16.write_to_buffer::<u16>(&mut b16);
        let mut sf = r.stream_no_alpha();
        let mut bf = vec![0f32; (awkward + 1).min(1 << 16)];
        let _ = sf.write_to_buffer::<f32>(&mut bf);
    }
}

/// Executes one op; returns a short outcome label.
fn run_op(op: &Op, state: &mut State, sc: &Scenario, stats: &mut Stats) -> &'static str {
    match (op, &mut *state) {
        (Op::TryInit, State::Uninit(slot)) => {
            let u = slot.take().unwrap();
            match u.try_init() {
                Ok(InitializeResult::NeedMoreData(u)) => {
                    *state = State::Uninit(Some(u));
                    "need_more"
                }
                Ok(InitializeResult::Initialized(img)) => {
                    *state = State::Ready(Box::new(img));
                    "initialised"
                }
                Err(_) => {
                    *state = State::Dead;
                    "init_err"
                }
            }
        }
        (Op::TryInit, _) => "n/a",
        (_, State::Uninit(_)) | (_, State::Dead) => "n/a",
        (op, State::Ready(img)) => match op {
            Op::Finalize => {
                if img.finalize().is_ok() { "ok" } else { "err" }
            }
            Op::Render(k) => {
                if too_big(img, sc.dim_cap) {
                    return "skipped_big";
                }
                match img.render_frame(*k) {
                    Ok(r) => {
                        crate::harness::touch_samples(r.image_all_channels().buf());
                        "ok"
                    }
                    Err(_) => "err",
                }
            }
            Op::RenderAll => {
                if too_big(img, sc.dim_cap) {
                    return "skipped_big";
                }
                let mut any_err = false;
                for k in 0..img.num_loaded_keyframes() {
                    match img.render_frame(k) {
                        Ok(r) => {
                            crate::harness::touch_samples(r.image_all_channels().buf());
                        }
                        Err(_) => any_err = true,
                    }
                }
                if any_err { "err" } else { "ok" }
            }
            Op::RenderLoading => {
                if too_big(img, sc.dim_cap) {
                    return "skipped_big";
                }
                match img.render_loading_frame() {
                    Ok(r) => {
                        crate::harness::touch_samples(r.image_all_channels().buf());
                        "ok"
                    }
                    Err(_) => "err",
                }
            }
            Op::SetRegion(l, t, w, h) => {
                let (iw, ih) = (img.width() as u64, img.height() as u64);
                let left = (iw * *l as u64 / 16) as u32;
                let top = (ih * *t as u64 / 16) as u32;
                let width = ((iw * *w as u64).div_ceil(16) as u32).clamp(1, img.width() - left.min(img.width() - 1));
                let height = ((ih * *h as u64).div_ceil(16) as u32).clamp(1, img.height() - top.min(img.height() - 1));
                img.set_image_region(CropInfo { left: left.min(img.width() - 1), top: top.min(img.height() - 1), width, height });
                let _ = img.current_image_region();
                "ok"
            }
            Op::RequestColor(i) => {
                img.request_color_encoding(color_encoding(*i));
                "ok"
            }
            Op::RequestIcc(kind) => {
                let icc: Vec<u8> = match kind {
                    0 => vec![],
                    1 => vec![0xff; 300],
                    2 => img.rendered_icc(),
                    3 => {
                        let mut v = img.rendered_icc();
                        v.truncate(v.len() / 2);
                        v
                    }
                    _ => {
                        let mut v = img.rendered_icc();
                        if v.len() > 40 {
                            v[36] ^= 0xff;
                            let n = v.len();
                            v[n / 2] ^= 0x55;
                        }
                        v
                    }
                };
                if img.request_icc(&icc).is_ok() { "ok" } else { "err" }
            }
            Op::Meta => {
                let _ = format!("{:?}", img.image_header());
                let _ = (img.width(), img.height(), img.original_icc().map(|x| x.len()));
                let _ = img.rendered_icc();
                let _ = img.rendered_cicp();
                let _ = img.pixel_format();
                let _ = img.hdr_type();
                let _ = (img.num_loaded_frames(), img.num_loaded_keyframes(), img.is_loading_done());
                let _ = img.render_spot_color();
                "ok"
            }
            Op::FrameInfo(k) => {
                let _ = img.frame_header(*k).map(|h| format!("{h:?}"));
                let _ = img.frame_by_keyframe(*k).map(|f| f.index());
                if let Some(f) = img.frame(*k) {
                    let t = f.toc();
                    let _ = (t.total_byte_size(), t.is_single_entry(), t.iter_bitstream_order().count());
                    let _ = f.current_loading_group();
                }
                let _ = img.frame_offset(*k);
                "ok"
            }
            Op::AuxBoxes => {
                let _ = img.aux_boxes().first_exif().map(|e| e.map(|x| x.payload().len()));
                let _ = img.aux_boxes().first_xml().map(|x| x.len());
                let _ = img.jpeg_reconstruction_status();
                let _ = img.reader().kind();
                "ok"
            }
            Op::ReconstructJpeg(script) => {
                let mut w = SimWriter::new(script.clone());
                let r = img.reconstruct_jpeg(&mut w);
                stats.fault_n("write_fault", w.fired.len() as u64);
                if r.is_ok() { "ok" } else { "err" }
            }
            Op::RenderAccessors(k, awkward) => {
                if too_big(img, sc.dim_cap) {
                    return "skipped_big";
                }
                match img.render_frame(*k) {
                    Ok(r) => {
                        drain_render(&r, *awkward);
                        "ok"
                    }
                    Err(_) => "err",
                }
            }
            Op::TryInit => unreachable!(),
        },
    }
}

fn op_name(op: &Op) -> &'static str {
    match op {
        Op::TryInit => "try_init",
        Op::Finalize => "finalize",
        Op::Render(_) => "render",
        Op::RenderAll => "render_all",
        Op::RenderLoading => "render_loading",
        Op::SetRegion(..) => "set_region",
        Op::RequestColor(_) => "request_color",
        Op::RequestIcc(_) => "request_icc",
        Op::Meta => "meta",
        Op::FrameInfo(_) => "frame_info",
        Op::AuxBoxes => "aux_boxes",
        Op::ReconstructJpeg(_) => "reconstruct_jpeg",
        Op::RenderAccessors(..) => "render_accessors",
    }
}

// generous on purpose: CPU time of a thread is inflated several-fold when the machine is heavily
// oversubscribed (page-fault and memory-bandwidth contention); the driver additionally requires a
// timeout to reproduce in a fresh process before it is reported
const NON_RENDER_DEADLINE: f64 = 15.0;
const RENDER_DEADLINE: f64 = 120.0;

pub fn execute(seed: u64, sc: &Scenario, stats: &mut Stats) -> Result<(), Violation> {
    stats.evaluations += 1;
    for f in &sc.faults {
        stats.fault(f);
    }
    let tracker = AllocTracker::with_limit(sc.alloc_limit);
    let pool = if sc.pool_threads > 0 {
        // A panic inside a task handed to `rayon::spawn` aborts the process unless the pool has a
        // panic handler; C02 ignores panics (C01 reports them, with no pool), so give the pool one.
        let rp = rayon_core::ThreadPoolBuilder::new()
            .num_threads(sc.pool_threads)
            .panic_handler(|_| {
                crate::harness::POOL_TASK_PANICS.fetch_add(1, std::sync::atomic::Ordering::Relaxed);
            })
            .build()
            .expect("rayon pool");
        JxlThreadPool::with_rayon_thread_pool(std::sync::Arc::new(rp))
    } else {
        JxlThreadPool::none()
    };
    let builder = || JxlImage::builder().pool(pool.clone()).alloc_tracker(tracker.clone()).force_wide_buffers(sc.force_wide);
    let mut state;
    let mut outcomes: Vec<&'static str> = Vec::new();
    let mut feed_errors = 0u32;

    // panics inside decoder calls are caught by the caller (`isolate`) and attributed with their
    // location; what this function adds is the bounded-time oracle and the step bookkeeping.
    let check_time = |name: &str, t0: f64, render: bool, splines: bool, stats: &mut Stats| -> Option<(String, String)> {
        let dt = thread_cpu_secs() - t0;
        let limit = if render { RENDER_DEADLINE } else { NON_RENDER_DEADLINE };
        if dt > limit {
            if render && splines {
                stats.probe("slow_render_with_splines");
                return None;
            }
            return Some((format!("timeout:{name}"), format!("{name} used {dt:.1}s of CPU time (deadline {limit}s)")));
        }
        None
    };

    match &sc.delivery {
        Delivery::Read(script) => {
            let mut reader = SimReader::new(&sc.bytes, script.clone());
            crate::harness::heartbeat("read");
            let t0 = thread_cpu_secs();
            let r = builder().read(&mut reader);
            for f in &reader.fired {
                stats.fault(&format!("read:{}", match f { ReadFault::Short(_) => "short", ReadFault::Interrupted => "interrupted", ReadFault::WouldBlock => "would_block", ReadFault::Error => "error", ReadFault::Eof => "eof" }));
            }
            if let Some((c, d)) = check_time("read", t0, false, false, stats) {
                return Err(viol(seed, sc, c, d));
            }
            state = match r {
                Ok(img) => State::Ready(Box::new(img)),
                Err(_) => State::Dead,
            };
            outcomes.push(if matches!(state, State::Dead) { "read_err" } else { "read_ok" });
        }
        Delivery::Feed => {
            state = State::Uninit(Some(builder().build_uninit()));
        }
    }

    let mut driver = FeedDriver::new(&sc.bytes);
    for step in &sc.steps {
        stats.steps += 1;
        match step {
            Step::Deliver(n) => {
                if matches!(sc.delivery, Delivery::Read(_)) {
                    continue;
                }
                if feed_errors > 0 && !sc.keep_feeding_after_error {
                    continue;
                }
                crate::harness::heartbeat("feed_bytes");
                let t0 = thread_cpu_secs();
                let r = match &mut state {
                    State::Uninit(Some(u)) => Some(driver.deliver(*n, |b| u.feed_bytes(b)).map(|_| ())),
                    State::Ready(img) => Some(driver.deliver(*n, |b| img.feed_bytes(b)).map(|_| ())),
                    _ => None,
                };
                if let Some(Err(_)) = r {
                    feed_errors += 1;
                    if feed_errors == 1 {
                        stats.probe("feed_error_then_continue");
                    }
                    // the driver keeps the unconsumed bytes pending, as a caller would
                }
                if let Some((c, d)) = check_time("feed_bytes", t0, false, false, stats) {
                    return Err(viol(seed, sc, c, d));
                }
            }
            Step::Op(op) => {
                let render = matches!(op, Op::Render(_) | Op::RenderAll | Op::RenderLoading | Op::RenderAccessors(..));
                let splines = if let State::Ready(img) = &state { render && has_splines(img) } else { false };
                crate::harness::heartbeat(op_name(op));
                let t0 = thread_cpu_secs();
                let out = run_op(op, &mut state, sc, stats);
                outcomes.push(out);
                if out != "n/a" {
                    stats.probe(&format!("op:{}:{}", op_name(op), out));
                }
                if let Some((c, d)) = check_time(op_name(op), t0, render, splines, stats) {
                    return Err(viol(seed, sc, c, d));
                }
            }
        }
    }
    let reached = match &state {
        State::Ready(img) => {
            if img.is_loading_done() { "complete" } else { "initialised" }
        }
        State::Uninit(_) => "uninit",
        State::Dead => "dead",
    };
    let origin = sc.origin.split(':').next().unwrap_or("");
    stats.distinct_sig(&[&origin, &sc.faults.len().min(3), &reached, &(feed_errors > 0), &matches!(sc.delivery, Delivery::Read(_)), &(sc.alloc_limit < (1 << 20))]);
    stats.probe(&format!("reached:{reached}"));
    stats.sample(serde_json::json!({
        "origin": sc.origin, "len": sc.bytes.len(), "faults": sc.faults, "steps": sc.steps.len(), "alloc_limit": sc.alloc_limit,
        "reached": reached, "outcomes": outcomes.iter().take(24).collect::<Vec<_>>(),
    }));
    Ok(())
}

pub fn minimise(sc: &Scenario, still: &dyn Fn(&Scenario) -> bool) -> Scenario {
    let mut best = sc.clone();
    // 1. merge all deliveries into one
    if matches!(best.delivery, Delivery::Feed) {
        let mut c = best.clone();
        let total: usize = c.steps.iter().map(|s| if let Step::Deliver(n) = s { *n } else { 0 }).sum();
        let mut seen = false;
        c.steps.retain(|s| match s {
            Step::Deliver(_) => {
                let keep = !seen;
                seen = true;
                keep
            }
            _ => true,
        });
        for s in c.steps.iter_mut() {
            if let Step::Deliver(n) = s {
                *n = total;
            }
        }
        if still(&c) {
            best = c;
        }
    }
    // 2. drop steps (ddmin-lite)
    let mut chunk = (best.steps.len() / 2).max(1);
    loop {
        let mut i = 0;
        while i < best.steps.len() {
            let mut c = best.clone();
            let end = (i + chunk).min(c.steps.len());
            // never drop deliveries in bulk pass: they carry the bytes
            let has_delivery = c.steps[i..end].iter().any(|s| matches!(s, Step::Deliver(n) if *n > 0));
            if has_delivery && chunk > 1 {
                i += chunk;
                continue;
            }
            if has_delivery {
                i += 1;
                continue;
            }
            c.steps.drain(i..end);
            if still(&c) {
                best = c;
            } else {
                i += chunk;
            }
        }
        if chunk == 1 {
            break;
        }
        chunk /= 2;
    }
    // 3. ample allocation limit
    if best.alloc_limit != 128 << 20 {
        let mut c = best.clone();
        c.alloc_limit = 128 << 20;
        if still(&c) {
            best = c;
        }
    }
    // 4. truncate the input
    let mut len = best.bytes.len();
    while len > 16 {
        let mut c = best.clone();
        let new_len = len * 3 / 4;
        c.bytes.truncate(new_len);
        if still(&c) {
            best = c;
            len = new_len;
        } else {
            break;
        }
    }
    best
}
