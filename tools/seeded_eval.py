#!/usr/bin/env python3
"""Evaluate a seeded mutation: tools/seeded_eval.py <out-dir> <property> <name> [--checks C09,C10] [--skip-confirm]

1. confirm in a scratch worktree (outside /repo and /verif): patch applies, demo fails with it and
   passes without it, the baseline test set still passes with it;
2. apply the patch to /repo, run the given checks (quick), undo (git checkout -- .);
3. write /verif/seeded/<name>/{patch.diff, demo/, meta.json}.
"""
import json, os, re, shutil, subprocess, sys, time

VERIF = os.path.dirname(os.path.dirname(os.path.abspath(__file__)))
REPO = "/repo"


def sh(cmd, cwd=None, timeout=3600, env=None):
    e = dict(os.environ)
    e["CARGO_NET_OFFLINE"] = "true"
    if cwd and cwd.startswith("/var/tmp/jxlv-confirm-"):
        # one shared build directory for all confirmations (outside /repo and /verif)
        e["CARGO_TARGET_DIR"] = "/var/tmp/jxlv-confirm-target"
    if env:
        e.update(env)
    r = subprocess.run(cmd, shell=isinstance(cmd, str), cwd=cwd, stdout=subprocess.PIPE, stderr=subprocess.STDOUT, text=True, timeout=timeout, env=e)
    return r.returncode, r.stdout


def demo_commands(demo_dir):
    """(copies, commands) parsed from the README: 'copy X to PATH' and 'cargo test ...' lines."""
    text = ""
    for n in os.listdir(demo_dir):
        if n.lower().startswith("readme"):
            text += open(os.path.join(demo_dir, n)).read() + "\n"
    copies = []
    for m in re.finditer(r"[Cc]opy\s+`?([\w./-]+)`?\s+(?:to|into)\s+`?([\w./-]+)`?", text):
        src, dst = m.group(1), m.group(2)
        if dst.endswith("/"):
            dst = dst + os.path.basename(src)
        copies.append((os.path.basename(src), dst))
    cmds = [m.group(0).strip().rstrip("`").strip() for m in re.finditer(r"cargo (?:test|run)[^\n`]*", text)]
    # general rule: everything in demo/ (files and support directories) goes to the tests directory the README names
    m = re.search(r"(crates/[\w-]+/tests)/?", text)
    if m:
        copies = [(n, m.group(1) + "/" + n) for n in sorted(os.listdir(demo_dir)) if not n.lower().startswith("readme")]
    return copies, cmds


def passed_tests(output):
    return set(re.findall(r"^test (\S+)(?: - should panic)? \.\.\. ok", output, re.M))


def main():
    out_dir, prop, name = sys.argv[1:4]
    checks = [prop]
    skip_confirm = "--skip-confirm" in sys.argv
    if "--checks" in sys.argv:
        checks = sys.argv[sys.argv.index("--checks") + 1].split(",")
    patch = os.path.join(out_dir, "patch.diff")
    demo_dir = os.path.join(out_dir, "demo")
    meta = {"property": prop, "name": name, "source_dir": out_dir, "ran": []}
    prev_path = os.path.join(VERIF, "seeded", name, "meta.json")
    prev = json.load(open(prev_path)) if os.path.exists(prev_path) else None
    notes = os.path.join(out_dir, "notes.md")
    if os.path.exists(notes):
        meta["needs_to_manifest"] = open(notes).read()[:3000]

    if not skip_confirm:
        wt = f"/var/tmp/jxlv-confirm-{name}"
        sh(f"git -C {REPO} worktree remove --force {wt}")
        shutil.rmtree(wt, ignore_errors=True)
        rc, o = sh(f"git -C {REPO} worktree add -q --detach {wt} HEAD")
        assert rc == 0, o
        try:
            copies, cmds = demo_commands(demo_dir)
            meta["demo_copies"], meta["demo_cmds"] = copies, cmds
            for src, dst in copies:
                d = os.path.join(wt, dst)
                os.makedirs(os.path.dirname(d), exist_ok=True)
                if os.path.isdir(os.path.join(demo_dir, src)):
                    shutil.copytree(os.path.join(demo_dir, src), d, dirs_exist_ok=True)
                else:
                    shutil.copy(os.path.join(demo_dir, src), d)
            # without the patch: demo passes
            res_without = []
            for c in cmds:
                rc, o = sh(c, cwd=wt, timeout=1800)
                res_without.append(rc)
            rc, o = sh(f"git apply {patch}", cwd=wt)
            assert rc == 0, f"patch does not apply: {o}"
            res_with = []
            for c in cmds:
                rc, o = sh(c, cwd=wt, timeout=1800)
                res_with.append(rc)
            meta["demo_rc_without_patch"], meta["demo_rc_with_patch"] = res_without, res_with
            meta["demo_confirms"] = all(r == 0 for r in res_without) and any(r != 0 for r in res_with)
            # existing suite with the patch (remove demo files first so they do not count)
            for _, dst in copies:
                try:
                    if os.path.isdir(os.path.join(wt, dst)):
                        shutil.rmtree(os.path.join(wt, dst))
                    else:
                        os.remove(os.path.join(wt, dst))
                except FileNotFoundError:
                    pass
            rc, o = sh("cargo test --workspace --no-fail-fast --offline", cwd=wt, timeout=3600)
            ok = passed_tests(o)
            base = json.load(open("/root/.vp/BASELINE.json"))["stable_pass"]
            # baseline names are crate-qualified: compare by suffix
            missing = [b for b in base if not any(b.split("::", 1)[1] == t or b.endswith("::" + t) or t.endswith(b.split("::", 1)[1]) for t in ok)]
            meta["suite_passed_count"] = len(ok)
            meta["suite_baseline_missing"] = missing
            meta["compiles_and_passes_suite"] = len(missing) == 0
        finally:
            sh(f"git -C {REPO} worktree remove --force {wt}")
            shutil.rmtree(wt, ignore_errors=True)

    # run the checks against the repository with the patch applied: /repo itself (default), or a
    # scratch worktree of /repo's HEAD when --scratch-repo is given (so that /repo stays usable)
    target = REPO
    env = None
    if "--confirm-only" in sys.argv:
        checks = []
    if "--scratch-repo" in sys.argv and checks:
        target = f"/var/tmp/jxlv-evalrepo-{name}"
        sh(f"git -C {REPO} worktree remove --force {target}")
        shutil.rmtree(target, ignore_errors=True)
        rc, o = sh(f"git -C {REPO} worktree add -q --detach {target} HEAD")
        assert rc == 0, o
        env = {"VERIF_REPO": target}
    meta["checks_ran_against"] = target
    if checks:
        rc, o = sh(f"git -C {target} status --porcelain")
        assert o.strip() == "", f"{target} not clean: {o}"
        rc, o = sh(f"git -C {target} apply {patch}")
        assert rc == 0, o
    try:
        for c in checks:
            t0 = time.time()
            rc, o = sh(f"./check {c} --tier quick", cwd=VERIF, timeout=3600, env=env)
            viol = re.findall(r"^violation class=(\S+)", o, re.M)
            meta["ran"].append({"check": c, "exit": rc, "violation_classes": viol, "wall_s": round(time.time() - t0, 1), "tail": o.strip().splitlines()[-1][:300] if o.strip() else ""})
            print(f"{name}: check {c} -> exit {rc} {viol[:3]}")
    finally:
        if checks:
            sh(f"git -C {target} checkout -- .")
        if target != REPO:
            sh(f"git -C {REPO} worktree remove --force {target}")
            shutil.rmtree(target, ignore_errors=True)
    if prev:
        # keep the confirmation results and the history of earlier evaluations
        for k, v in prev.items():
            if k not in meta or (k in ("demo_confirms", "compiles_and_passes_suite", "demo_cmds", "demo_copies", "suite_passed_count", "suite_baseline_missing", "demo_rc_with_patch", "demo_rc_without_patch") and skip_confirm):
                meta[k] = v
        if checks:
            meta["earlier_rounds"] = prev.get("earlier_rounds", []) + [{"ran": prev.get("ran", []), "detected_by": prev.get("detected_by", [])}]
        else:
            meta["ran"] = prev.get("ran", [])
            meta["checks_ran_against"] = prev.get("checks_ran_against")
    meta["detected_by"] = [r["check"] for r in meta["ran"] if r["exit"] == 1]
    dst = os.path.join(VERIF, "seeded", name)
    os.makedirs(dst, exist_ok=True)
    same = os.path.realpath(out_dir) == os.path.realpath(dst)
    if not same:
        shutil.copy(patch, os.path.join(dst, "patch.diff"))
    if os.path.isdir(demo_dir) and not same:
        shutil.rmtree(os.path.join(dst, "demo"), ignore_errors=True)
        shutil.copytree(demo_dir, os.path.join(dst, "demo"))
    json.dump(meta, open(os.path.join(dst, "meta.json"), "w"), indent=1)
    print(json.dumps({k: meta[k] for k in ("name", "demo_confirms", "compiles_and_passes_suite", "detected_by") if k in meta}))


if __name__ == "__main__":
    main()
