pub mod adapter;
pub mod c01;
pub mod c02;
pub mod c05;
pub mod c06;
pub mod c07;
pub mod c08;
pub mod c09;
pub mod c10;
pub mod c11;
pub mod c13;
pub mod c20;
#[cfg(feature = "sched")]
pub mod shuttle_rt;
pub mod common;

use crate::harness::{Stats, Tier, Violation};
use serde::Serialize;

/// How long a decoder call may stay blocked (no heartbeat, no CPU time consumed) before the run
/// is declared hung. A blocked thread cannot be killed: it is leaked and the worker carries on.
const HANG_WALL_SECS: f64 = 6.0;

/// Runs `f` on its own thread under a watchdog.
/// * a panic raised from decoder code (location under /repo or in std/deps called from it) becomes
///   a violation of the property at hand (no listed property can hold for a call that panics);
///   panics from harness code propagate (harness errors, exit 2);
/// * a call that blocks forever (thread makes no progress and burns no CPU) becomes a violation
///   of class `hang:<step>`.
pub fn isolate<S: Serialize + Clone + Send + 'static>(
    property: &str,
    check: &str,
    seed: u64,
    sc: &S,
    stats: &mut Stats,
    f: impl FnOnce(&S, &mut Stats) -> Result<(), Violation> + Send + 'static,
) -> Result<(), Violation> {
    use std::sync::atomic::Ordering;
    let (tx, rx) = std::sync::mpsc::channel();
    let (tid_tx, tid_rx) = std::sync::mpsc::channel();
    let sc_thread = sc.clone();
    let handle = std::thread::Builder::new()
        .stack_size(256 << 20)
        .spawn(move || {
            let _ = tid_tx.send(unsafe { libc::pthread_self() });
            let mut local = Stats::default();
            let r = std::panic::catch_unwind(std::panic::AssertUnwindSafe(|| f(&sc_thread, &mut local)));
            let r = r.map_err(|p| (crate::harness::last_panic_location(), crate::harness::panic_message(&*p)));
            let _ = tx.send((r, local));
        })
        .expect("spawn");
    let tid = tid_rx.recv().expect("thread id");
    let mut last_beat = crate::harness::HEARTBEAT.load(Ordering::Relaxed);
    let mut last_cpu = crate::harness::cpu_secs_of(tid).unwrap_or(0.0);
    let mut stalled_since = std::time::Instant::now();
    loop {
        match rx.recv_timeout(std::time::Duration::from_millis(500)) {
            Ok((r, local)) => {
                let _ = handle.join();
                stats.merge(local);
                return match r {
                    Ok(r) => r,
                    Err((loc, msg)) => {
                        // a panic in std / a dependency with no decoder function on the stack comes
                        // from the harness itself (thread spawn failure, say), not from the decoder
                        let in_repo = loc.starts_with(&format!("{}/", crate::harness::repo_root())) || loc.starts_with("/repo/");
                        if crate::harness::is_decoder_location(&loc) && (in_repo || loc.contains('@')) {
                            Err(Violation {
                                property: property.into(),
                                check: check.into(),
                                class: panic_class(&loc, &msg),
                                detail: format!("decoder panicked at {loc}: {msg}"),
                                seed,
                                scenario: serde_json::to_value(sc).unwrap(),
                            })
                        } else {
                            panic!("harness panic at {loc}: {msg}");
                        }
                    }
                };
            }
            Err(std::sync::mpsc::RecvTimeoutError::Timeout) => {
                let beat = crate::harness::HEARTBEAT.load(Ordering::Relaxed);
                let cpu = crate::harness::cpu_secs_of(tid).unwrap_or(last_cpu);
                if beat != last_beat || cpu - last_cpu > 0.05 {
                    last_beat = beat;
                    last_cpu = cpu;
                    stalled_since = std::time::Instant::now();
                } else if stalled_since.elapsed().as_secs_f64() > HANG_WALL_SECS {
                    let step = crate::harness::CURRENT_STEP_SHARED.lock().map(|g| g.clone()).unwrap_or_default();
                    // leak the blocked thread
                    std::mem::forget(handle);
                    crate::harness::HANGS.fetch_add(1, Ordering::Relaxed);
                    if check == "c02" {
                        // a call that never returns is C01's / C07's business, not a memory-safety report
                        stats.probe("call_never_returned(ignored_for_C02)");
                        return Ok(());
                    }
                    // streams with patches block inside pool tasks (finding F23): keep that apart
                    let scenario = serde_json::to_value(sc).unwrap();
                    let js = serde_json::to_string(&scenario).unwrap_or_default();
                    let tag = format!("{}{}", if js.contains("\"patches\":{") { "+patches" } else { "" }, if js.contains("\"kind\":\"LfFrame\"") { "+lff" } else { "" });
                    return Err(Violation {
                        property: property.into(),
                        check: check.into(),
                        class: format!("hang:{}{tag}", step.split(' ').next().unwrap_or("")),
                        detail: format!("call never returned: thread blocked for more than {HANG_WALL_SECS}s without consuming CPU time during step `{step}`"),
                        seed,
                        scenario: serde_json::to_value(sc).unwrap(),
                    });
                }
            }
            Err(std::sync::mpsc::RecvTimeoutError::Disconnected) => panic!("worker thread vanished"),
        }
    }
}

/// Violation class of a decoder panic: source file + message with numbers normalised (line numbers
/// are left out so that unrelated edits to the file do not change the class).
pub fn panic_class(loc: &str, msg: &str) -> String {
    let (loc, site) = match loc.split_once('@') {
        Some((l, s)) => (l, format!("@{s}")),
        None => (loc, String::new()),
    };
    let root = format!("{}/crates/", crate::harness::repo_root());
    let file = loc.trim_start_matches(root.as_str()).trim_start_matches("/repo/crates/").split(':').next().unwrap_or("").to_string();
    let file = if let Some(i) = file.find("/library/") { format!("std{}", &file[i + 8..]) } else { file };
    let mut norm = String::new();
    let mut in_digits = false;
    for ch in msg.chars().take(120) {
        if ch.is_ascii_digit() {
            if !in_digits {
                norm.push('N');
            }
            in_digits = true;
        } else {
            in_digits = false;
            norm.push(if ch == ' ' { '_' } else { ch });
        }
    }
    norm.truncate(70);
    format!("panic:{file}:{norm}{site}")
}

pub fn strip_tags(class: &str) -> String {
    let mut c = class.to_string();
    for t in ["+vardct", "+patches", "+splines", "+lff"] {
        c = c.replace(t, "");
    }
    c
}

macro_rules! dispatch {
    ($($name:literal => $m:ident, $prop:literal;)*) => {
        /// Runs one seeded simulation of `check`; returns a digest of the run.
        pub fn run_seed(check: &str, seed: u64, tier: Tier, stats: &mut Stats) -> Result<u64, Violation> {
            match check {
                $($name => {
                    let sc = $m::generate(seed, tier);
                    let digest = $m::digest(&sc);
                    isolate($prop, $name, seed, &sc, stats, move |sc, st| $m::execute(seed, sc, st))?;
                    Ok(digest)
                })*
                _ => panic!("unknown check {check}"),
            }
        }

        /// Re-executes a recorded scenario (no PRNG draws: everything is materialised in the file).
        pub fn replay(v: &Violation, stats: &mut Stats) -> Result<(), Violation> {
            match v.check.as_str() {
                $($name => {
                    let sc: $m::Scenario = serde_json::from_value(v.scenario.clone()).expect("scenario");
                    { let seed = v.seed; isolate($prop, $name, seed, &sc, stats, move |sc, st| $m::execute(seed, sc, st)) }
                })*
                other => panic!("unknown check {other}"),
            }
        }

        pub fn scenario_json(check: &str, seed: u64, tier: Tier) -> String {
            match check {
                $($name => serde_json::to_string(&$m::generate(seed, tier)).unwrap(),)*
                _ => panic!("unknown check {check}"),
            }
        }

        pub fn minimise(check: &str, v: Violation) -> Violation {
            match check {
                $($name => {
                    let sc: $m::Scenario = serde_json::from_value(v.scenario.clone()).expect("scenario");
                    // feature tags (+vardct, +patches, +splines) are not part of what must persist:
                    // the minimiser may drop a feature that has nothing to do with the failure, and
                    // the reported class is the one of the minimised scenario
                    let class = strip_tags(&v.class);
                    let seed = v.seed;
                    let still = |cand: &$m::Scenario| -> Option<Violation> {
                        let mut st = Stats::default();
                        match isolate($prop, $name, seed, cand, &mut st, move |sc, st| $m::execute(seed, sc, st)) {
                            Err(v2) if strip_tags(&v2.class) == class => Some(v2),
                            _ => None,
                        }
                    };
                    // bounded minimisation: stop shrinking after the budget, keep the best so far
                    let t0 = std::time::Instant::now();
                    let budget = if class.starts_with("hang") { 100.0 } else { 60.0 };
                    let small = $m::minimise(&sc, &|c| t0.elapsed().as_secs_f64() < budget && still(c).is_some());
                    still(&small).unwrap_or(v)
                })*
                _ => v,
            }
        }
    };
}

dispatch! {
    "c01" => c01, "C01";
    "c02" => c02, "C02";
    "c05" => c05, "C05";
    "c06" => c06, "C06";
    "c07" => c07, "C07";
    "c08" => c08, "C08";
    "c09" => c09, "C09";
    "c10" => c10, "C10";
    "c11" => c11, "C11";
    "c13" => c13, "C13";
    "c20" => c20, "C20";
}
