//! Shared drivers: loading an image through the feed protocol under a chunk schedule.
use crate::simio::{ChunkSchedule, FeedDriver};
use jxl_oxide::{AllocTracker, InitializeResult, JxlImage, JxlThreadPool, UninitializedJxlImage};

pub enum Loader {
    Uninit(Option<UninitializedJxlImage>),
    Ready(Box<JxlImage>),
}

#[derive(Debug, Clone, PartialEq, Eq)]
pub enum LoadError {
    Feed(String, crate::harness::ErrClass, usize),
    Init(String, crate::harness::ErrClass, usize),
    NeverInitialised,
    Finalize(String),
}

impl std::fmt::Display for LoadError {
    fn fmt(&self, f: &mut std::fmt::Formatter<'_>) -> std::fmt::Result {
        match self {
            LoadError::Feed(e, _, at) => write!(f, "feed_bytes failed after {at} delivered bytes: {e}"),
            LoadError::Init(e, _, at) => write!(f, "try_init failed after {at} delivered bytes: {e}"),
            LoadError::NeverInitialised => write!(f, "image never initialised"),
            LoadError::Finalize(e) => write!(f, "finalize failed: {e}"),
        }
    }
}

pub struct LoadOpts {
    pub tracker: Option<AllocTracker>,
    pub pool: JxlThreadPool,
    pub force_wide: bool,
}

impl Default for LoadOpts {
    fn default() -> Self {
        Self { tracker: None, pool: JxlThreadPool::none(), force_wide: false }
    }
}

pub fn new_uninit(opts: &LoadOpts) -> UninitializedJxlImage {
    let mut b = JxlImage::builder().pool(opts.pool.clone()).force_wide_buffers(opts.force_wide);
    if let Some(t) = &opts.tracker {
        b = b.alloc_tracker(t.clone());
    }
    b.build_uninit()
}

/// Drives `bytes` through the documented feed protocol under `sched`. `at_cut` is called after each
/// chunk with the loader state (for C11 style probing).
pub fn load_with(
    bytes: &[u8],
    sched: &ChunkSchedule,
    opts: &LoadOpts,
    mut at_cut: impl FnMut(usize, &mut Loader) -> Result<(), String>,
) -> Result<JxlImage, LoadError> {
    let mut driver = FeedDriver::new(bytes);
    let mut loader = Loader::Uninit(Some(new_uninit(opts)));
    for &n in &sched.sizes {
        match &mut loader {
            Loader::Uninit(slot) => {
                let mut uninit = slot.take().unwrap();
                let at = driver.delivered() + n.min(driver.remaining());
                driver
                    .deliver(n, |buf| uninit.feed_bytes(buf))
                    .map_err(|e| LoadError::Feed(format!("{e}"), crate::harness::classify(&*e), at))?;
                match uninit.try_init() {
                    Err(e) => return Err(LoadError::Init(format!("{e}"), crate::harness::classify(&*e), at)),
                    Ok(InitializeResult::NeedMoreData(u)) => loader = Loader::Uninit(Some(u)),
                    Ok(InitializeResult::Initialized(img)) => loader = Loader::Ready(Box::new(img)),
                }
            }
            Loader::Ready(img) => {
                let at = driver.delivered() + n.min(driver.remaining());
                driver
                    .deliver(n, |buf| img.feed_bytes(buf))
                    .map_err(|e| LoadError::Feed(format!("{e}"), crate::harness::classify(&*e), at))?;
            }
        }
        at_cut(driver.delivered(), &mut loader).map_err(|e| LoadError::Finalize(e))?;
    }
    match loader {
        Loader::Ready(mut img) => {
            img.finalize().map_err(|e| LoadError::Finalize(format!("{e}")))?;
            Ok(*img)
        }
        Loader::Uninit(_) => Err(LoadError::NeverInitialised),
    }
}

pub fn load_chunked(bytes: &[u8], sched: &ChunkSchedule, tracker: Option<AllocTracker>, pool: JxlThreadPool) -> Result<JxlImage, String> {
    load_with(bytes, sched, &LoadOpts { tracker, pool, force_wide: false }, |_, _| Ok(())).map_err(|e| e.to_string())
}

// ---------------------------------------------------------------------------------------------
// Valid-stream workload shared by C09 / C11 / C13 / C06 / C07 / C08 / C20
// ---------------------------------------------------------------------------------------------
use crate::jxlgen::container::{BoxKind, random_container};
use crate::jxlgen::random::{GenConfig, random_program};
use crate::rng::Rng;
use serde::{Deserialize, Serialize};

#[derive(Clone, Debug, Serialize, Deserialize)]
pub struct StreamCase {
    #[serde(with = "crate::hexbytes")]
    pub bytes: Vec<u8>,
    /// structure boundaries in file offsets
    pub structural: Vec<usize>,
    /// offsets inside box headers / index words
    pub headers: Vec<usize>,
    pub container: bool,
    /// there are aux boxes after the last codestream box (`read()` stops before them by design)
    pub aux_after_codestream: bool,
    /// one of those trailing boxes is Brotli-compressed
    #[serde(default)]
    pub brob_after_codestream: bool,
    /// short description of the program shape (for distinct-case signatures)
    pub shape: String,
    pub source: String,
    /// the program has VarDCT frames (stage-2 generator: self-consistency only; violation classes
    /// carry a `+vardct` suffix so that VarDCT-specific findings do not mask Modular ones)
    #[serde(default)]
    pub has_vardct: bool,
    /// the generating program (for triage only; replay uses `bytes`)
    #[serde(default)]
    pub program: Option<serde_json::Value>,
}

pub const FIXTURE: &str = "/repo/crates/jxl-oxide-tests/tests/cms/cmyk_layers.jxl"; // data file, never patched

pub fn program_shape(p: &crate::jxlgen::Program) -> String {
    let mut s = format!(
        "f{}-ec{}-{}-o{}-a{}",
        p.frames.len(),
        p.extra.len(),
        if p.gray { "g" } else { "c" },
        (p.orientation != 1) as u8,
        p.animation.is_some() as u8
    );
    let mut flags = std::collections::BTreeSet::new();
    if p.preview.is_some() {
        flags.insert("preview");
    }
    if p.frames.iter().any(|f| f.vardct.is_some()) {
        flags.insert("vardct");
    }
    for f in &p.frames {
        let (cw, ch) = p.color_sample_dims(f);
        let gd = 128 << f.group_size_shift;
        if cw > gd || ch > gd {
            flags.insert("mg");
        }
        if f.passes.num_passes > 1 {
            flags.insert("mp");
        }
        if f.crop.is_some() {
            flags.insert("crop");
        }
        if f.upsampling > 1 {
            flags.insert("up");
        }
        if f.toc_permuted {
            flags.insert("perm");
        }
        if !matches!(f.gab, crate::jxlgen::GabSpec::Off) || f.epf.is_some() {
            flags.insert("rf");
        }
        if f.noise.is_some() {
            flags.insert("noise");
        }
        if f.kind == crate::jxlgen::FrameKind::LfFrame {
            flags.insert("lff");
        }
        if f.blend.mode != crate::jxlgen::BlendMode::Replace {
            flags.insert("blend");
        }
        for t in &f.modular.transforms {
            flags.insert(match t {
                crate::jxlgen::TransformSpec::Rct { .. } => "rct",
                crate::jxlgen::TransformSpec::Palette { .. } => "pal",
                crate::jxlgen::TransformSpec::Squeeze { .. } => "sq",
            });
        }
        if f.kind == crate::jxlgen::FrameKind::ReferenceOnly {
            flags.insert("refonly");
        }
    }
    for f in flags {
        s.push('-');
        s.push_str(f);
    }
    s
}

/// A valid stream: generated program (bare or wrapped in a container) or, rarely, the real fixture.
impl StreamCase {
    /// Violation classes on streams using reach-only features carry a suffix, so that a finding
    /// specific to VarDCT / patches / splines does not mask one on plain Modular streams.
    pub fn tag(&self, class: String) -> String {
        if class.starts_with("panic:") {
            return class;
        }
        let mut class = class;
        let has = |key: &str| {
            self.program
                .as_ref()
                .and_then(|p| p.get("frames"))
                .and_then(|f| f.as_array())
                .map(|fs| fs.iter().any(|f| f.get(key).map(|v| !v.is_null()).unwrap_or(false)))
                .unwrap_or(false)
        };
        if self.has_vardct || has("vardct") {
            class.push_str("+vardct");
        }
        if has("patches") {
            class.push_str("+patches");
        }
        if has("splines") {
            class.push_str("+splines");
        }
        let lff = self.program.as_ref().and_then(|p| p.get("frames")).and_then(|f| f.as_array()).map(|fs| fs.iter().any(|f| f.get("kind").and_then(|k| k.as_str()) == Some("LfFrame"))).unwrap_or(false);
        if lff {
            class.push_str("+lff");
        }
        class
    }
}

/// A bare-codestream case for `prog` (no container).
pub fn bare_case(prog: &crate::jxlgen::Program) -> Option<StreamCase> {
    let (bytes, map) = prog.encode().ok()?;
    Some(StreamCase {
        structural: map.structural_offsets(),
        headers: vec![],
        container: false,
        aux_after_codestream: false,
        brob_after_codestream: false,
        shape: program_shape(prog),
        source: "jxlgen(minimised)".into(),
        has_vardct: prog.frames.iter().any(|f| f.vardct.is_some()),
        program: serde_json::to_value(prog).ok(),
        bytes,
    })
}

/// Program-level shrinking shared by the minimisers: drop the container, then switch features off
/// one at a time (patches, splines, noise, filters, TOC permutation, passes, preview, colour
/// encoding, transforms, trailing frames) while `still` holds. Every candidate is re-encoded; a
/// candidate the writer cannot represent is skipped.
pub fn shrink_case(case: &StreamCase, still: &dyn Fn(&StreamCase) -> bool) -> StreamCase {
    use crate::jxlgen::*;
    let Some(pv) = &case.program else { return case.clone() };
    let Ok(mut prog) = serde_json::from_value::<Program>(pv.clone()) else { return case.clone() };
    prog.rebuild();
    let mut best = case.clone();
    if case.container {
        match bare_case(&prog) {
            Some(c) if still(&c) => best = c,
            _ => return best, // the container matters (or the program no longer encodes): keep as is
        }
    }
    type Edit = Box<dyn Fn(&mut Program) -> bool>;
    let mut edits: Vec<Edit> = Vec::new();
    edits.push(Box::new(|p| {
        if p.frames.len() < 2 {
            return false;
        }
        p.frames.pop();
        let last = p.frames.last_mut().unwrap();
        last.is_last = true;
        last.save_as_reference = 0;
        if last.kind == FrameKind::ReferenceOnly {
            last.kind = FrameKind::Regular;
        }
        true
    }));
    edits.push(Box::new(|p| p.preview.take().is_some()));
    edits.push(Box::new(|p| {
        let d = p.colour != icc::ColourSpec::Default;
        p.colour = icc::ColourSpec::Default;
        d
    }));
    for fi in 0..8usize {
        edits.push(Box::new(move |p| p.frames.get_mut(fi).map(|f| f.patches.take().is_some()).unwrap_or(false)));
        edits.push(Box::new(move |p| p.frames.get_mut(fi).map(|f| f.splines.take().is_some()).unwrap_or(false)));
        edits.push(Box::new(move |p| p.frames.get_mut(fi).map(|f| f.noise.take().is_some()).unwrap_or(false)));
        edits.push(Box::new(move |p| p.frames.get_mut(fi).map(|f| f.epf.take().is_some()).unwrap_or(false)));
        edits.push(Box::new(move |p| {
            p.frames.get_mut(fi).map(|f| { let d = !matches!(f.gab, GabSpec::Off); f.gab = GabSpec::Off; d }).unwrap_or(false)
        }));
        edits.push(Box::new(move |p| p.frames.get_mut(fi).map(|f| std::mem::replace(&mut f.toc_permuted, false)).unwrap_or(false)));
        edits.push(Box::new(move |p| {
            p.frames.get_mut(fi).map(|f| { let d = !f.modular.transforms.is_empty(); f.modular.transforms.clear(); d }).unwrap_or(false)
        }));
        edits.push(Box::new(move |p| p.frames.get_mut(fi).map(|f| f.crop.take().is_some()).unwrap_or(false)));
    }
    let mut progress = true;
    let mut rounds = 0;
    while progress && rounds < 4 {
        progress = false;
        rounds += 1;
        for e in &edits {
            let mut cand = prog.clone();
            if !e(&mut cand) {
                continue;
            }
            let Some(c) = bare_case(&cand) else { continue };
            if still(&c) {
                prog = cand;
                best = c;
                progress = true;
            }
        }
    }
    best
}

pub fn valid_stream(rng: &mut Rng, cfg: &GenConfig, fixture_one_in: u64, container_pct: u64) -> StreamCase {
    if fixture_one_in > 0 && rng.below(fixture_one_in) == 0 {
        if let Ok(bytes) = std::fs::read(FIXTURE) {
            // JXL(12) ftyp(20) jxll(9) jxlc-to-EOF header at 41..49
            let structural = vec![12, 32, 41, 49, 51, bytes.len() / 2, bytes.len()];
            let headers = (12..60).collect();
            return StreamCase { bytes, structural, headers, container: true, aux_after_codestream: false, brob_after_codestream: false, shape: "fixture".into(), source: "cmyk_layers.jxl".into(), has_vardct: false, program: None };
        }
    }
    let prog = random_program(rng, cfg);
    let shape = program_shape(&prog);
    let (cs, map) = prog.encode().expect("encode");
    let cs_struct = map.structural_offsets();
    if rng.below(100) >= container_pct {
        return StreamCase { bytes: cs, structural: cs_struct, headers: vec![], container: false, aux_after_codestream: false, brob_after_codestream: false, shape, source: "jxlgen".into(), has_vardct: prog.frames.iter().any(|f| f.vardct.is_some()), program: serde_json::to_value(&prog).ok() };
    }
    let spec = random_container(rng, &cs, &cs_struct);
    let (bytes, bmap) = spec.encode(rng.next_u64());
    let mut structural: Vec<usize> = bmap.boxes.iter().flat_map(|b| [b.0, b.2, b.3]).collect();
    // map codestream offsets into file offsets
    let fixed = 1 + spec.with_ftyp as usize + spec.level.is_some() as usize;
    let mut cs_pos = 0usize;
    // the box in which the codestream's last byte arrives (read() stops reading there)
    let mut last_cs_box = usize::MAX;
    for (i, b) in spec.boxes.iter().enumerate() {
        let (_, _, p, _) = bmap.boxes[fixed + i];
        match &b.kind {
            BoxKind::Jxlc => {
                for &o in &cs_struct {
                    structural.push(p + o);
                }
                if last_cs_box == usize::MAX {
                    last_cs_box = i;
                }
            }
            BoxKind::Jxlp { .. } => {
                let start = p + 4;
                for &o in &cs_struct {
                    if o >= cs_pos && o <= cs_pos + b.payload.len() {
                        structural.push(start + (o - cs_pos));
                    }
                }
                cs_pos += b.payload.len();
                if cs_pos >= cs.len() && last_cs_box == usize::MAX {
                    last_cs_box = i;
                }
            }
            _ => {}
        }
    }
    if last_cs_box == usize::MAX {
        last_cs_box = spec.boxes.len();
    }
    structural.sort_unstable();
    structural.dedup();
    let aux_after = spec.boxes.iter().skip(last_cs_box + 1).any(|b| matches!(b.kind, BoxKind::Aux { .. }));
    let brob_after = spec.boxes.iter().skip(last_cs_box + 1).any(|b| matches!(b.kind, BoxKind::Aux { brob: true, .. }));
    StreamCase {
        brob_after_codestream: brob_after,
        headers: bmap.inside_header_offsets(),
        bytes,
        structural,
        container: true,
        aux_after_codestream: aux_after,
        shape: format!("{shape}-box{}", spec.boxes.len()),
        source: "jxlgen+container".into(),
        has_vardct: prog.frames.iter().any(|f| f.vardct.is_some()),
        program: serde_json::to_value(&prog).ok(),
    }
}
