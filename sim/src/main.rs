fn main() { println!("hello"); }
