//! C07 — output does not depend on threads, scheduling or repetition.
use crate::checks::common::*;
use crate::harness::{Stats, Tier, Violation};
use crate::jxlgen::random::GenConfig;
use crate::observe::{RenderObs, observe_full};
use crate::pool::PermutePool;
use crate::rng::{Rng, derive};
use crate::simio::{ChunkSchedule, StorageFault};
use jxl_oxide::{JxlImage, JxlThreadPool};
use serde::{Deserialize, Serialize};
use std::sync::Arc;

#[derive(Clone, Debug, Serialize, Deserialize)]
pub struct Scenario {
    pub case: StreamCase,
    /// a storage fault was applied inside a section (some tasks fail)
    pub faulted: bool,
    /// seeds of the simulated task schedules
    pub pool_seeds: Vec<u64>,
    /// sizes of the real rayon pools (non-replayable part; the oracle is still deterministic)
    pub rayon_sizes: Vec<usize>,
    pub rayon_reps: usize,
    pub concurrent_callers: usize,
    pub repeat_renders: usize,
    /// prefix lengths at which the partially loaded image is rendered with `render_loading_frame`
    /// under every pool variant (the same bytes must give the same picture)
    #[serde(default)]
    pub partial_cuts: Vec<usize>,
}

pub fn generate(seed: u64, tier: Tier) -> Scenario {
    let mut rng = Rng::new(derive(seed, 7, 0));
    let mut cfg = if rng.chance(2, 3) { GenConfig::medium() } else { GenConfig::small() }.swarm(&mut rng);
    cfg.multi_group |= rng.chance(1, 2);
    cfg.vardct = rng.chance(1, 3);
    let mut case = valid_stream(&mut rng, &cfg, if tier == Tier::Quick { 1500 } else { 400 }, 15);
    let faulted = rng.chance(1, 5);
    if faulted {
        // aim at section bodies (skip the first 64 bytes: headers)
        let len = case.bytes.len();
        if len > 200 {
            let off = rng.usize_in(len / 3, len - 1);
            StorageFault::BitFlip { offset: off, bit: rng.below(8) as u8 }.apply(&mut case.bytes);
        }
    }
    let n = if tier == Tier::Quick { 6 } else { 32 };
    let fixture = case.shape == "fixture";
    let len = case.bytes.len();
    let mut partial_cuts: Vec<usize> = (0..if fixture { 2 } else { 4 })
        .map(|_| {
            if !case.structural.is_empty() && rng.chance(1, 2) {
                // inside a section: between two structural offsets
                let i = rng.below(case.structural.len() as u64) as usize;
                let a = case.structural[i];
                let b = case.structural.get(i + 1).copied().unwrap_or(len);
                a + rng.below((b.saturating_sub(a)).max(1) as u64) as usize
            } else {
                rng.below(len as u64 + 1) as usize
            }
        })
        .collect();
    partial_cuts.sort_unstable();
    partial_cuts.dedup();
    Scenario {
        case,
        faulted,
        pool_seeds: (0..if fixture { 2 } else { n }).map(|_| rng.next_u64()).collect(),
        rayon_sizes: if fixture { vec![3] } else { vec![*rng.pick(&[1usize, 2]), *rng.pick(&[3usize, 8, 16])] },
        rayon_reps: if tier == Tier::Quick { 2 } else { 5 },
        concurrent_callers: if fixture { 2 } else { rng.usize_in(2, 4) },
        repeat_renders: 3,
        partial_cuts,
    }
}

pub fn digest(sc: &Scenario) -> u64 {
    let mut h = crate::harness::Fnv::new();
    h.write(&sc.case.bytes);
    for s in &sc.pool_seeds {
        h.write_u64(*s);
    }
    h.finish()
}

fn viol(seed: u64, sc: &Scenario, class: String, detail: String) -> Violation {
    let class = sc.case.tag(class);
    Violation { property: "C07".into(), check: "c07".into(), class, detail, seed, scenario: serde_json::to_value(sc).unwrap() }
}

/// `verdict_differs:<mode>` when one side failed and the other succeeded, `differs:<mode>` when both
/// succeeded with different samples (or both failed with different errors).
fn diff_class(mode: &str, d: &str) -> String {
    let verdict = (d.contains("Err(") && d.contains("Ok(")) || d.contains("initialised:");
    format!("{}:{mode}", if verdict { "verdict_differs" } else { "differs" })
}

fn load(bytes: &[u8], pool: JxlThreadPool) -> Result<JxlImage, String> {
    load_chunked(bytes, &ChunkSchedule::whole(bytes.len()), None, pool)
}

/// Feeds a prefix and renders the loading frame; `None` if the image does not initialise.
fn partial_render(prefix: &[u8], pool: JxlThreadPool, permute: Option<&Arc<PermutePool>>) -> Option<RenderObs> {
    let mut u = new_uninit(&LoadOpts { pool, tracker: None, force_wide: false });
    if u.feed_bytes(prefix).is_err() {
        return None;
    }
    let mut img = match u.try_init() {
        Ok(jxl_oxide::InitializeResult::Initialized(i)) => i,
        _ => return None,
    };
    let r = RenderObs::from_result(&img.render_loading_frame());
    if let Some(p) = permute {
        p.drain();
    }
    Some(r)
}

/// Same Ok/Err verdict, and bit-identical samples when Ok (the error *value* may differ:
/// the shared error slot keeps the last writer).
fn same(a: &RenderObs, b: &RenderObs) -> Option<String> {
    match (a, b) {
        (RenderObs::Err(_), RenderObs::Err(_)) => None,
        _ => a.diff(b),
    }
}

pub fn execute(seed: u64, sc: &Scenario, stats: &mut Stats) -> Result<(), Violation> {
    stats.evaluations += 1;
    let bytes = &sc.case.bytes;
    crate::harness::heartbeat("reference");
    let reference = match load(bytes, JxlThreadPool::none()) {
        Ok(img) => observe_full(&img),
        Err(_) => {
            // load-time rejection (only possible for faulted streams): must be the same for every pool
            if !sc.faulted {
                stats.generator_rejects += 1;
                return Ok(());
            }
            for &ps in sc.pool_seeds.iter().take(2) {
                let pool = PermutePool::new(ps);
                if load(bytes, JxlThreadPool::verif(pool.clone())).is_ok() {
                    return Err(viol(seed, sc, "load_verdict_depends_on_pool".into(), "stream rejected without a pool but accepted with the simulated pool".into()));
                }
            }
            stats.probe("faulted_stream_rejected_at_load");
            return Ok(());
        }
    };
    let any_err = reference.renders.iter().any(|r| !r.is_ok());
    if any_err {
        stats.probe("reference_has_failing_render");
    }

    // (a) seeded task schedules through the simulated pool
    for &ps in &sc.pool_seeds {
        crate::harness::heartbeat("permute-pool");
        let pool = PermutePool::new(ps);
        let img = match load(bytes, JxlThreadPool::verif(pool.clone() as Arc<dyn jxl_threadpool::verif::VerifPool>)) {
            Ok(i) => i,
            Err(e) => return Err(viol(seed, sc, "load_verdict_depends_on_pool".into(), format!("loads without a pool but fails with the simulated pool: {e}"))),
        };
        let mut renders = Vec::new();
        for k in 0..img.num_loaded_keyframes() {
            renders.push(RenderObs::from_result(&img.render_frame(k)));
            pool.drain_some();
        }
        pool.drain();
        let (batches, tasks, deferred) = pool.counters();
        stats.steps += tasks;
        stats.probe_n("pool_batches", batches);
        stats.fault_n("detached_task_deferred", deferred);
        stats.schedules.insert(pool.schedule_hash());
        stats.distinct_sig(&[&sc.case.shape, &"permute", &pool.schedule_hash()]);
        if renders.len() != reference.renders.len() {
            return Err(viol(seed, sc, "keyframe_count".into(), "keyframe count differs with the simulated pool".into()));
        }
        for (k, (a, b)) in reference.renders.iter().zip(&renders).enumerate() {
            if let Some(d) = same(a, b) {
                return Err(viol(seed, sc, diff_class("simulated_schedule", &d), format!("keyframe {k}, no pool vs simulated task schedule (seed {ps}): {d}")));
            }
        }
        // renders again after all background tasks completed: still the same
        for (k, a) in reference.renders.iter().enumerate() {
            let again = RenderObs::from_result(&img.render_frame(k));
            if let Some(d) = same(a, &again) {
                return Err(viol(seed, sc, diff_class("after_background_tasks", &d), format!("keyframe {k} rendered again after the deferred background tasks ran: {d}")));
            }
        }
    }

    // (b) repetition on one image, no pool
    {
        crate::harness::heartbeat("repeat");
        let img = load(bytes, JxlThreadPool::none()).map_err(|e| viol(seed, sc, "reload".into(), e))?;
        for rep in 0..sc.repeat_renders {
            for (k, a) in reference.renders.iter().enumerate() {
                let again = RenderObs::from_result(&img.render_frame(k));
                if let Some(d) = same(a, &again) {
                    return Err(viol(seed, sc, diff_class("repetition", &d), format!("keyframe {k}, repetition {rep} on one image: {d}")));
                }
            }
        }
        stats.distinct_sig(&[&sc.case.shape, &"repeat"]);
    }

    // (c) real rayon pools; (d) concurrent callers on a real pool
    // A stream with patches can deadlock on a real pool (known finding F23); every such hang leaks
    // the blocked caller thread and its pool. After two hangs in this worker process the real-pool
    // legs are skipped for streams with patches: the finding is on record, more leaks add nothing.
    let tags = sc.case.tag(String::new());
    let has_patches = tags.contains("+patches") || tags.contains("+lff");
    let skip_real_pools = has_patches && crate::harness::HANGS.load(std::sync::atomic::Ordering::Relaxed) >= 2;
    if skip_real_pools {
        stats.probe("real_pool_legs_skipped_after_patch_deadlocks");
    }
    for &n in sc.rayon_sizes.iter().filter(|_| !skip_real_pools) {
        for rep in 0..sc.rayon_reps {
            crate::harness::heartbeat("rayon");
            let pool = JxlThreadPool::rayon(Some(n));
            let img = match load(bytes, pool) {
                Ok(i) => i,
                Err(e) => return Err(viol(seed, sc, "load_verdict_depends_on_pool".into(), format!("loads without a pool but fails with a {n}-thread pool: {e}"))),
            };
            if rep == 0 && sc.concurrent_callers > 1 {
                let results: Vec<Vec<RenderObs>> = std::thread::scope(|s| {
                    let hs: Vec<_> = (0..sc.concurrent_callers)
                        .map(|t| {
                            let img = &img;
                            let nk = reference.renders.len();
                            s.spawn(move || (0..nk).map(|i| RenderObs::from_result(&img.render_frame((i + t) % nk))).collect::<Vec<_>>())
                        })
                        .collect();
                    hs.into_iter().map(|h| h.join().unwrap_or_default()).collect()
                });
                stats.fault("concurrent_callers_real_pool");
                for (t, rs) in results.iter().enumerate() {
                    let nk = reference.renders.len();
                    if rs.len() != nk {
                        return Err(viol(seed, sc, "caller_panicked".into(), format!("caller thread {t} did not return all renders")));
                    }
                    for (i, r) in rs.iter().enumerate() {
                        let k = (i + t) % nk;
                        if let Some(d) = same(&reference.renders[k], r) {
                            return Err(viol(seed, sc, diff_class("concurrent_callers", &d), format!("keyframe {k}, caller {t} of {} on a {n}-thread pool: {d}", sc.concurrent_callers)));
                        }
                    }
                }
            }
            for (k, a) in reference.renders.iter().enumerate() {
                let r = RenderObs::from_result(&img.render_frame(k));
                if let Some(d) = same(a, &r) {
                    return Err(viol(seed, sc, diff_class("real_pool", &d), format!("keyframe {k}, no pool vs {n}-thread rayon pool (repetition {rep}): {d}")));
                }
            }
            stats.fault("real_rayon_pool");
            stats.distinct_sig(&[&sc.case.shape, &"rayon", &n]);
        }
    }
    // (e) partially loaded stream: the loading render must not depend on the pool either
    for &cut in &sc.partial_cuts {
        let prefix = &bytes[..cut.min(bytes.len())];
        crate::harness::heartbeat("partial");
        let reference = partial_render(prefix, JxlThreadPool::none(), None);
        let mut variants: Vec<(String, Option<RenderObs>)> = Vec::new();
        for &ps in sc.pool_seeds.iter().take(3) {
            let pool = PermutePool::new(ps);
            let r = partial_render(prefix, JxlThreadPool::verif(pool.clone() as Arc<dyn jxl_threadpool::verif::VerifPool>), Some(&pool));
            stats.schedules.insert(pool.schedule_hash());
            variants.push((format!("simulated schedule {ps}"), r));
        }
        for &n in sc.rayon_sizes.iter().filter(|_| !skip_real_pools) {
            for rep in 0..sc.rayon_reps.max(2) {
                variants.push((format!("{n}-thread rayon pool, repetition {rep}"), partial_render(prefix, JxlThreadPool::rayon(Some(n)), None)));
            }
        }
        stats.fault("partial_load_render");
        for (name, v) in variants {
            let d = match (&reference, &v) {
                (None, None) => None,
                (Some(a), Some(b)) => same(a, b),
                (a, b) => Some(format!("initialised: {} vs {}", a.is_some(), b.is_some())),
            };
            if let Some(d) = d {
                let mode = if name.starts_with("simulated") { "simulated_schedule" } else { "real_pool" };
                return Err(viol(seed, sc, format!("partial_load_differs:{mode}"), format!("stream cut at {cut} of {}: loading render without a pool vs {name}: {d}", bytes.len())));
            }
        }
        stats.distinct_sig(&[&sc.case.shape, &"partial", &(cut * 8 / bytes.len().max(1))]);
    }
    stats.sample(serde_json::json!({
        "shape": sc.case.shape, "len": bytes.len(), "faulted": sc.faulted, "simulated_schedules": sc.pool_seeds.len(), "partial_cuts": sc.partial_cuts,
        "rayon_sizes": sc.rayon_sizes, "concurrent_callers": sc.concurrent_callers,
        "reference": reference.renders.iter().map(|r| r.short()).collect::<Vec<_>>(),
    }));
    Ok(())
}

pub fn minimise(sc: &Scenario, still: &dyn Fn(&Scenario) -> bool) -> Scenario {
    let mut best = sc.clone();
    for i in 0..best.partial_cuts.len() {
        let mut c = best.clone();
        c.partial_cuts = vec![best.partial_cuts[i]];
        if still(&c) {
            best = c;
            break;
        }
    }
    {
        let mut c = best.clone();
        c.partial_cuts.clear();
        if still(&c) {
            best = c;
        }
    }
    // only the simulated schedules (replayable part), one seed
    let mut c = best.clone();
    c.rayon_sizes.clear();
    if still(&c) {
        best = c;
        for i in 0..best.pool_seeds.len() {
            let mut c = best.clone();
            c.pool_seeds = vec![best.pool_seeds[i]];
            if still(&c) {
                best = c;
                break;
            }
        }
    } else {
        let mut c = best.clone();
        c.pool_seeds.clear();
        if still(&c) {
            best = c;
        }
    }
    best
}
