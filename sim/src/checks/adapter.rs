//! The `image`-crate adapter (`jxl_oxide::integration::JxlDecoder`, optional feature `image`) is a
//! third place where the library pulls bytes through a `Read` seam and a second way of setting
//! allocation limits. Two legs use it:
//! * C09: the adapter fed through a scripted short-read reader must report the same dimensions,
//!   colour type, ICC profile, Exif payload and pixels as when it reads the stream in one piece;
//! * C13: a history of `set_limits` / `read_rect` calls must behave exactly like the same history
//!   with the *rejected* `set_limits` calls removed (a rejected limit has no effect).
use crate::simio::{ReadFault, SimReader};
use image::{ImageDecoder, ImageDecoderRect};
use jxl_oxide::integration::JxlDecoder;
use serde::{Deserialize, Serialize};

#[derive(Clone, Debug, PartialEq)]
pub struct AdapterObs {
    pub dims: (u32, u32),
    pub color: String,
    pub icc: u64,
    pub exif: String,
    pub pixels: Result<u64, String>,
}

impl AdapterObs {
    pub fn diff(&self, o: &AdapterObs) -> Option<String> {
        if self.dims != o.dims {
            return Some(format!("dims {:?} vs {:?}", self.dims, o.dims));
        }
        if self.color != o.color {
            return Some(format!("color_type {} vs {}", self.color, o.color));
        }
        if self.icc != o.icc {
            return Some("icc profile differs".into());
        }
        if self.exif != o.exif {
            return Some(format!("exif {} vs {}", self.exif, o.exif));
        }
        match (&self.pixels, &o.pixels) {
            (Ok(a), Ok(b)) if a != b => Some("pixels differ".into()),
            (Ok(_), Err(e)) => Some(format!("pixels: ok vs error {e}")),
            (Err(e), Ok(_)) => Some(format!("pixels: error {e} vs ok")),
            _ => None,
        }
    }
}

fn err_kind(e: &image::ImageError) -> String {
    match e {
        image::ImageError::Limits(_) => "limits".into(),
        image::ImageError::Decoding(_) => "decoding".into(),
        image::ImageError::IoError(_) => "io".into(),
        image::ImageError::Unsupported(_) => "unsupported".into(),
        _ => "other".into(),
    }
}

/// Everything the adapter reports for `bytes` read through `script`; `Err` = construction failed.
pub fn observe(bytes: &[u8], script: Vec<Option<ReadFault>>) -> (Result<AdapterObs, String>, usize) {
    let mut reader = SimReader::new(bytes, script);
    let r = (|| {
        let mut dec = JxlDecoder::with_thread_pool(&mut reader, jxl_oxide::JxlThreadPool::none()).map_err(|e| err_kind(&e))?;
        let dims = dec.dimensions();
        let color = format!("{:?}", dec.color_type());
        let icc = dec.icc_profile().map(|p| p.map(|p| crate::harness::hash_bytes(&p)).unwrap_or(0)).unwrap_or(1);
        let exif = match dec.exif_metadata() {
            Ok(Some(e)) => format!("Some({})", crate::hexbytes::to_hex(&e)),
            Ok(None) => "None".into(),
            Err(e) => format!("Err({})", err_kind(&e)),
        };
        let total = dec.total_bytes();
        let pixels = if total > (64 << 20) {
            Err("too_big(skipped)".to_string())
        } else {
            let mut buf = vec![0u8; total as usize];
            match dec.read_image(&mut buf) {
                Ok(()) => Ok(crate::harness::hash_bytes(&buf)),
                Err(e) => Err(err_kind(&e)),
            }
        };
        Ok(AdapterObs { dims, color, icc, exif, pixels })
    })();
    let fired = reader.fired.len();
    (r, fired)
}

#[derive(Clone, Debug, Serialize, Deserialize)]
pub enum LimitOp {
    /// `max_alloc`: `None` = unlimited
    SetLimits(Option<u64>),
    /// rectangle in sixteenths of the image (left, top, width, height)
    ReadRect(u32, u32, u32, u32),
}

/// Outcome per op: `Ok(hash)` / `Err(kind)` (hash 0 for set_limits).
pub fn run_limit_history(bytes: &[u8], ops: &[LimitOp]) -> Result<Vec<Result<u64, String>>, String> {
    let mut dec = JxlDecoder::with_thread_pool(std::io::Cursor::new(bytes), jxl_oxide::JxlThreadPool::none()).map_err(|e| err_kind(&e))?;
    let (w, h) = dec.dimensions();
    let bpp = dec.color_type().bytes_per_pixel() as usize;
    let mut out = Vec::new();
    for op in ops {
        crate::harness::heartbeat("adapter-limit-op");
        match op {
            LimitOp::SetLimits(v) => {
                let mut l = image::Limits::no_limits();
                l.max_alloc = *v;
                out.push(dec.set_limits(l).map(|_| 0).map_err(|e| err_kind(&e)));
            }
            LimitOp::ReadRect(l, t, rw, rh) => {
                let left = ((w as u64 * *l as u64 / 16) as u32).min(w - 1);
                let top = ((h as u64 * *t as u64 / 16) as u32).min(h - 1);
                let width = ((w as u64 * *rw as u64).div_ceil(16) as u32).clamp(1, w - left);
                let height = ((h as u64 * *rh as u64).div_ceil(16) as u32).clamp(1, h - top);
                if width as u64 * height as u64 * bpp as u64 > (64 << 20) {
                    out.push(Err("too_big(skipped)".into()));
                    continue;
                }
                let pitch = width as usize * bpp;
                let mut buf = vec![0u8; pitch * height as usize];
                out.push(dec.read_rect(left, top, width, height, &mut buf, pitch).map(|_| crate::harness::hash_bytes(&buf)).map_err(|e| err_kind(&e)));
            }
        }
    }
    Ok(out)
}
