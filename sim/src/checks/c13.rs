//! C13 — resource accounting: limit respected, exhaustion is an error, nothing leaks.
use crate::checks::common::*;
use crate::harness::{Stats, Tier, Violation};
use crate::jxlgen::random::GenConfig;
use crate::rng::{Rng, derive};
use crate::simio::{ALL_CHUNK_KINDS, ChunkKind, ChunkSchedule, FeedDriver, StorageFault};
use jxl_oxide::{AllocTracker, CropInfo, InitializeResult, JxlImage, JxlThreadPool, Render, UninitializedJxlImage};
use serde::{Deserialize, Serialize};

#[derive(Clone, Debug, Serialize, Deserialize)]
pub enum Op {
    Deliver(usize),
    TryInit,
    Render(usize),
    RenderLoading,
    SetRegion(u32, u32, u32, u32),
    Expand(usize),
    Shrink(usize),
    DropRenders,
    /// switch the fail-from-k fault off ("limit raised")
    LiftFault,
}

#[derive(Clone, Debug, Serialize, Deserialize)]
pub enum Budget {
    /// per-mille of the fault-free peak of outstanding bytes
    PeakFraction(u32),
    /// absolute bytes
    Absolute(usize),
    /// ample budget, fail every tracked allocation from the (per-mille of N)-th on
    FailFrom(u32),
}

#[derive(Clone, Debug, Serialize, Deserialize)]
pub struct Pass {
    pub budget: Budget,
    pub ops: Vec<Op>,
}

#[derive(Clone, Debug, Serialize, Deserialize)]
pub struct Scenario {
    pub case: StreamCase,
    pub hostile: bool,
    pub passes: Vec<Pass>,
    /// supplementary, non-replayable leg: real threads hammering one tracker near its limit
    /// (threads, ops per thread, budget in bytes, PRNG seed); the oracle (granted <= budget) is
    /// deterministic, the interleaving is whatever the machine does
    #[serde(default)]
    pub tracker_stress: Option<(usize, usize, usize, u64)>,
    /// `image`-crate adapter: a history of `set_limits` / `read_rect` calls; it must behave like the
    /// same history without the rejected `set_limits` calls
    #[serde(default)]
    pub adapter_history: Option<Vec<crate::checks::adapter::LimitOp>>,
}

const AMPLE: usize = 1 << 31;

fn ops_for(rng: &mut Rng, sched: &ChunkSchedule, with_budget_ops: bool, allow_region: bool) -> Vec<Op> {
    let mut ops = Vec::new();
    for &n in &sched.sizes {
        ops.push(Op::Deliver(n));
        ops.push(Op::TryInit);
        if rng.chance(1, 6) {
            ops.push(Op::RenderLoading);
        }
    }
    let k = rng.usize_in(2, 9);
    for _ in 0..k {
        ops.push(match rng.below(12) {
            0..=4 => Op::Render(rng.below(3) as usize),
            5 => Op::RenderLoading,
            6 | 7 if allow_region => {
                let l = rng.below(16) as u32;
                let t = rng.below(16) as u32;
                Op::SetRegion(l, t, 1 + rng.below((16 - l) as u64) as u32, 1 + rng.below((16 - t) as u64) as u32)
            }
            8 if with_budget_ops => Op::Expand(*rng.pick(&[1usize, 1000, 100_000, 10_000_000])),
            9 if with_budget_ops => Op::Shrink(*rng.pick(&[1usize, 1000, 100_000, 10_000_000])),
            10 => Op::DropRenders,
            _ => Op::LiftFault,
        });
    }
    ops.push(Op::Render(0));
    ops
}

pub fn generate(seed: u64, tier: Tier) -> Scenario {
    let mut rng = Rng::new(derive(seed, 13, 0));
    let cfg = if rng.chance(1, 5) { GenConfig::medium() } else { GenConfig::small() }.swarm(&mut rng);
    let mut cfg = cfg;
    cfg.vardct = rng.chance(1, 3);
    let mut case = valid_stream(&mut rng, &cfg, if tier == Tier::Quick { 4000 } else { 800 }, 25);
    let hostile = rng.chance(1, 4);
    if hostile {
        let regions: Vec<(usize, usize)> = case.structural.iter().map(|&o| (o, o + 24)).collect();
        let n = rng.usize_in(1, 3);
        for _ in 0..n {
            StorageFault::random(&mut rng, case.bytes.len(), &regions).apply(&mut case.bytes);
        }
    }
    let len = case.bytes.len();
    let npass = if tier == Tier::Quick { 4 } else { 10 };
    let mut passes = Vec::new();
    for _ in 0..npass {
        let kind = *rng.pick(&ALL_CHUNK_KINDS);
        let kind = if kind == ChunkKind::OneByte { ChunkKind::Geometric } else { kind };
        let mut sched = ChunkSchedule::random(&mut rng, kind, len, &case.structural, &case.headers);
        if sched.sizes.len() > 60 {
            let g = sched.sizes.len().div_ceil(60);
            sched.sizes = sched.sizes.chunks(g).map(|c| c.iter().sum()).collect();
        }
        let budget = match rng.below(10) {
            0 => Budget::Absolute(0),
            1 => Budget::Absolute(rng.below(4096) as usize),
            2..=5 => Budget::PeakFraction(rng.below(1001) as u32),
            _ => Budget::FailFrom(rng.below(1001) as u32),
        };
        let with_budget_ops = !matches!(budget, Budget::FailFrom(_));
        // region requests on multi-frame images hit known finding F15 (C06: region-of-interest + blending); keep C13 clear of it
        let allow_region = case.shape.starts_with("f1-") && !hostile && !case.shape.contains("crop");
        passes.push(Pass { budget, ops: ops_for(&mut rng, &sched, with_budget_ops, allow_region) });
    }
    let tracker_stress = rng.chance(1, 8).then(|| (rng.usize_in(2, 6), 4000, *rng.pick(&[1000usize, 4096, 100_000]), rng.next_u64()));
    let rect_ok = case.shape.starts_with("f1-") && !case.shape.contains("crop") && !case.shape.contains("up");
    let adapter_history = (!hostile && rng.chance(1, 5)).then(|| {
        use crate::checks::adapter::LimitOp;
        let px = 1u64 << rng.range(8, 22);
        (0..rng.usize_in(3, 9))
            .map(|_| {
                if rng.chance(3, 5) {
                    LimitOp::SetLimits(match rng.below(8) {
                        0 => None,
                        1 => Some(0),
                        2 => Some(rng.below(4096)),
                        3 | 4 => Some(px * rng.range(1, 16) as u64),
                        5 => Some(1 << 20),
                        6 => Some(2 << 20),
                        _ => Some(1 << 28),
                    })
                } else if rect_ok {
                    LimitOp::ReadRect(rng.below(16) as u32, rng.below(16) as u32, 1 + rng.below(16) as u32, 1 + rng.below(16) as u32)
                } else {
                    // partial rectangles on multi-frame / cropped / patched images hit F15 / F24 (C06's findings)
                    LimitOp::ReadRect(0, 0, 16, 16)
                }
            })
            .collect()
    });
    Scenario { case, hostile, passes, tracker_stress, adapter_history }
}

pub fn digest(sc: &Scenario) -> u64 {
    let mut h = crate::harness::Fnv::new();
    h.write(&sc.case.bytes);
    h.write(format!("{:?}", sc.passes).as_bytes());
    h.finish()
}

fn viol(seed: u64, sc: &Scenario, class: String, detail: String) -> Violation {
    let class = sc.case.tag(class);
    Violation { property: "C13".into(), check: "c13".into(), class, detail, seed, scenario: serde_json::to_value(sc).unwrap() }
}

enum State {
    Uninit(Option<UninitializedJxlImage>),
    Ready(Box<JxlImage>),
    Dead,
}

struct PassOutcome {
    allocs: usize,
    peak: usize,
    errors: u32,
    oom_errors: u32,
    renders_ok: u32,
}

/// Runs one pass; checks the ledger invariants after every op and conservation at the end.
fn run_pass(bytes: &[u8], ops: &[Op], limit: usize, fail_from: usize, stats: &mut Stats) -> Result<PassOutcome, (String, String)> {
    let tracker = AllocTracker::with_limit(limit);
    tracker.verif_fail_from(fail_from);
    let mut ledger = limit;
    let mut out = PassOutcome { allocs: 0, peak: 0, errors: 0, oom_errors: 0, renders_ok: 0 };
    {
        let mut state = State::Uninit(Some(JxlImage::builder().pool(JxlThreadPool::none()).alloc_tracker(tracker.clone()).build_uninit()));
        let mut renders: Vec<Render> = Vec::new();
        let mut driver = FeedDriver::new(bytes);
        let mut feed_failed = false;
        for (i, op) in ops.iter().enumerate() {
            stats.steps += 1;
            crate::harness::heartbeat("c13-op");
            let mut note_err = |e: &(dyn std::error::Error + Send + Sync + 'static), out: &mut PassOutcome| {
                out.errors += 1;
                if crate::harness::classify(e) == crate::harness::ErrClass::OutOfMemory {
                    out.oom_errors += 1;
                }
            };
            match op {
                Op::Deliver(n) => {
                    if feed_failed {
                        continue;
                    }
                    let r = match &mut state {
                        State::Uninit(Some(u)) => driver.deliver(*n, |b| u.feed_bytes(b)).map(|_| ()),
                        State::Ready(img) => driver.deliver(*n, |b| img.feed_bytes(b)).map(|_| ()),
                        _ => Ok(()),
                    };
                    if let Err(e) = r {
                        note_err(&*e, &mut out);
                        feed_failed = true; // C13 does not feed after a failed feed (C01 does)
                    }
                }
                Op::TryInit => {
                    if let State::Uninit(slot) = &mut state {
                        let u = slot.take().unwrap();
                        match u.try_init() {
                            Ok(InitializeResult::NeedMoreData(u)) => state = State::Uninit(Some(u)),
                            Ok(InitializeResult::Initialized(img)) => state = State::Ready(Box::new(img)),
                            Err(e) => {
                                note_err(&*e, &mut out);
                                state = State::Dead;
                            }
                        }
                    }
                }
                Op::Render(k) => {
                    if let State::Ready(img) = &state {
                        if img.image_header().size.width.max(img.image_header().size.height) <= 4096 {
                            match img.render_frame(*k) {
                                Ok(r) => {
                                    out.renders_ok += 1;
                                    renders.push(r);
                                }
                                Err(e) => note_err(&*e, &mut out),
                            }
                        }
                    }
                }
                Op::RenderLoading => {
                    if let State::Ready(img) = &mut state {
                        if img.image_header().size.width.max(img.image_header().size.height) <= 4096 {
                            match img.render_loading_frame() {
                                Ok(r) => renders.push(r),
                                Err(e) => note_err(&*e, &mut out),
                            }
                        }
                    }
                }
                Op::SetRegion(l, t, w, h) => {
                    if let State::Ready(img) = &mut state {
                        let (iw, ih) = (img.width() as u64, img.height() as u64);
                        let left = ((iw * *l as u64 / 16) as u32).min(img.width() - 1);
                        let top = ((ih * *t as u64 / 16) as u32).min(img.height() - 1);
                        let width = ((iw * *w as u64).div_ceil(16) as u32).clamp(1, img.width() - left);
                        let height = ((ih * *h as u64).div_ceil(16) as u32).clamp(1, img.height() - top);
                        img.set_image_region(CropInfo { left, top, width, height });
                    }
                }
                Op::Expand(n) => {
                    tracker.expand_limit(*n);
                    ledger += *n;
                }
                Op::Shrink(n) => {
                    if tracker.shrink_limit(*n).is_ok() {
                        ledger -= *n;
                    }
                }
                Op::DropRenders => renders.clear(),
                Op::LiftFault => tracker.verif_fail_from(usize::MAX),
            }
            // ledger invariants (quiescent: no pool, no concurrent callers)
            let outstanding = tracker.verif_outstanding();
            let left = tracker.verif_bytes_left();
            if outstanding + left != ledger {
                return Err(("ledger_mismatch".into(), format!("after op #{i} {op:?}: outstanding {outstanding} + bytes_left {left} != budget {ledger}")));
            }
            if outstanding > ledger {
                return Err(("limit_exceeded".into(), format!("after op #{i} {op:?}: {outstanding} tracked bytes outstanding with a budget of {ledger}")));
            }
            // completeness: "group byte buffers carry their handle for their lifetime" — the
            // compressed section data the image holds is part of the tracked total, whatever the
            // chunking it arrived in (added after seeded mutation c13-m3)
            if let State::Ready(img) = &state {
                let mut held = 0usize;
                for fi in 0..=img.num_loaded_frames() {
                    if let Some(f) = img.frame(fi) {
                        for g in f.toc().iter_bitstream_order() {
                            held += f.data(g.kind).map(|d| d.len()).unwrap_or(0);
                        }
                    }
                }
                if held > outstanding {
                    return Err(("untracked_memory:section_data".into(), format!("after op #{i} {op:?}: the image holds {held} bytes of section data but only {outstanding} bytes are tracked")));
                }
                if held > 0 {
                    stats.probe("section_data_accounted");
                }
            }
            // completeness, sample buffers: "grids ... carry their handle for their lifetime" — the
            // distinct sample grids reachable through the renders the caller keeps alive are part
            // of the tracked total at their real element size (added after seeded mutation
            // c13-m6, which charged cloned f32 grids one byte per sample)
            {
                let mut seen: Vec<usize> = Vec::new();
                let mut grid_bytes = 0usize;
                for r in &renders {
                    let (_, ec) = r.extra_channels();
                    for b in r.color_channels().iter().chain(ec) {
                        let (ptr, bytes) = match b {
                            jxl_render::ImageBuffer::F32(g) => (g.buf().as_ptr() as usize, g.buf().len() * 4),
                            jxl_render::ImageBuffer::I32(g) => (g.buf().as_ptr() as usize, g.buf().len() * 4),
                            jxl_render::ImageBuffer::I16(g) => (g.buf().as_ptr() as usize, g.buf().len() * 2),
                        };
                        if bytes > 0 && !seen.contains(&ptr) {
                            seen.push(ptr);
                            grid_bytes += bytes;
                        }
                    }
                }
                if grid_bytes > outstanding {
                    return Err(("untracked_memory:render_grids".into(), format!("after op #{i} {op:?}: the {} renders kept alive hold {grid_bytes} bytes of distinct sample grids but only {outstanding} bytes are tracked", renders.len())));
                }
                if grid_bytes > 0 {
                    stats.probe("render_grids_accounted");
                }
            }
        }
        out.peak = tracker.verif_high_water();
        out.allocs = tracker.verif_allocs();
        if tracker.verif_failed() > 0 {
            stats.fault_n("alloc_failed_by_switch", tracker.verif_failed() as u64);
        }
        // drop everything: renders, image (and with it every frame, cache and reference)
        drop(renders);
        drop(state);
    }
    let outstanding = tracker.verif_outstanding();
    if outstanding != 0 {
        return Err(("leak".into(), format!("{outstanding} tracked bytes still outstanding after the image and all renders were dropped")));
    }
    // public-API form of the same statement: the whole budget can be taken back, and not one byte more
    if tracker.shrink_limit(ledger).is_err() {
        return Err(("budget_not_restored".into(), format!("shrink_limit({ledger}) failed after drop-all: bytes_left = {}", tracker.verif_bytes_left())));
    }
    if tracker.alloc::<u8>(1).is_ok() {
        return Err(("budget_inflated".into(), "a 1-byte allocation succeeded after the whole budget was taken back".into()));
    }
    Ok(out)
}

/// Real threads allocate and release random sizes on one tracker whose budget fits only one or
/// two requests at a time. `granted` is incremented after a successful alloc and decremented
/// before the handle is dropped, so it never exceeds what the tracker really has outstanding:
/// `granted > budget` can only mean the tracker handed out more than its limit.
fn tracker_stress(threads: usize, ops: usize, budget: usize, seed: u64) -> Result<(), String> {
    use std::sync::atomic::{AtomicUsize, Ordering};
    let tracker = AllocTracker::with_limit(budget);
    let granted = AtomicUsize::new(0);
    let worst = AtomicUsize::new(0);
    std::thread::scope(|s| {
        for t in 0..threads {
            let tracker = tracker.clone();
            let (granted, worst) = (&granted, &worst);
            s.spawn(move || {
                let mut rng = Rng::new(seed ^ (t as u64) << 32);
                for _ in 0..ops {
                    let n = budget * 6 / 10 + rng.below((budget / 10).max(1) as u64) as usize;
                    if let Ok(h) = tracker.alloc::<u8>(n) {
                        let now = granted.fetch_add(n, Ordering::SeqCst) + n;
                        worst.fetch_max(now, Ordering::SeqCst);
                        std::hint::spin_loop();
                        granted.fetch_sub(n, Ordering::SeqCst);
                        drop(h);
                    }
                }
            });
        }
    });
    let w = worst.load(Ordering::SeqCst);
    if w > budget {
        return Err(format!("{threads} threads on a {budget}-byte budget: {w} bytes were granted at once"));
    }
    if tracker.shrink_limit(budget).is_err() || tracker.alloc::<u8>(1).is_ok() {
        return Err(format!("budget not restored exactly after the concurrent workload (bytes_left = {})", tracker.verif_bytes_left()));
    }
    Ok(())
}

pub fn execute(seed: u64, sc: &Scenario, stats: &mut Stats) -> Result<(), Violation> {
    stats.evaluations += 1;
    let bytes = &sc.case.bytes;
    // reference pass: fault-free, ample budget — measures N (tracked allocations) and the peak
    let ref_ops: Vec<Op> = sc.passes.first().map(|p| p.ops.clone()).unwrap_or_default();
    let reference = match run_pass(bytes, &ref_ops, AMPLE, usize::MAX, stats) {
        Ok(o) => o,
        Err((c, d)) => return Err(viol(seed, sc, c, format!("fault-free pass: {d}"))),
    };
    if !sc.hostile && reference.errors > 0 && reference.renders_ok == 0 {
        stats.generator_rejects += 1;
    }
    for (pi, pass) in sc.passes.iter().enumerate() {
        let (limit, fail_from, label) = match pass.budget {
            Budget::PeakFraction(pm) => ((reference.peak as u64 * pm as u64 / 1000) as usize, usize::MAX, "limit"),
            Budget::Absolute(n) => (n, usize::MAX, "limit"),
            Budget::FailFrom(pm) => (AMPLE, (reference.allocs as u64 * pm as u64 / 1000) as usize, "fail_from_k"),
        };
        stats.fault(label);
        match run_pass(bytes, &pass.ops, limit, fail_from, stats) {
            Ok(o) => {
                if o.oom_errors > 0 {
                    stats.probe("exhaustion_surfaced_as_err");
                }
                if o.errors > 0 && o.renders_ok > 0 {
                    stats.probe("render_ok_after_error");
                }
                let bucket = match pass.budget {
                    Budget::PeakFraction(pm) => format!("peak{}", pm / 125),
                    Budget::Absolute(_) => "abs".into(),
                    Budget::FailFrom(pm) => format!("k{}", pm / 125),
                };
                stats.distinct_sig(&[&sc.case.shape, &bucket, &(o.oom_errors > 0), &sc.hostile]);
            }
            Err((c, d)) => {
                return Err(viol(seed, sc, c, format!("pass {pi} ({:?}, limit {limit}, fail_from {fail_from}, fault-free N={} peak={}): {d}", pass.budget, reference.allocs, reference.peak)));
            }
        }
    }
    if let Some(ops) = &sc.adapter_history {
        use crate::checks::adapter::{LimitOp, run_limit_history};
        crate::harness::heartbeat("c13-adapter");
        if let Ok(a) = run_limit_history(bytes, ops) {
            let rejected: Vec<bool> = ops.iter().zip(&a).map(|(op, r)| matches!(op, LimitOp::SetLimits(_)) && r.is_err()).collect();
            if rejected.iter().any(|&r| r) {
                let kept: Vec<LimitOp> = ops.iter().zip(&rejected).filter(|(_, r)| !**r).map(|(o, _)| o.clone()).collect();
                let want: Vec<_> = a.iter().zip(&rejected).filter(|(_, r)| !**r).map(|(o, _)| o.clone()).collect();
                match run_limit_history(bytes, &kept) {
                    Ok(b) if b == want => stats.probe("adapter_rejected_limit_had_no_effect"),
                    Ok(b) => {
                        let i = b.iter().zip(&want).position(|(x, y)| x != y).unwrap_or(0);
                        return Err(viol(seed, sc, "adapter:rejected_set_limits_had_an_effect".into(), format!(
                            "JxlDecoder history {ops:?}: outcomes {a:?}; without the rejected set_limits calls op #{i} ({:?}) gives {:?} instead of {:?}", kept[i], b[i], want[i])));
                    }
                    Err(e) => return Err(viol(seed, sc, "adapter:construction_differs".into(), format!("second construction failed: {e}"))),
                }
                stats.fault("adapter_set_limits_rejected");
            } else {
                stats.probe("adapter_history_without_rejection");
            }
        }
    }
    if let Some((threads, ops, budget, sseed)) = sc.tracker_stress {
        crate::harness::heartbeat("c13-tracker-stress");
        if let Err(d) = tracker_stress(threads, ops, budget, sseed) {
            return Err(viol(seed, sc, "limit_exceeded:concurrent_alloc".into(), d));
        }
        stats.fault("concurrent_alloc_near_limit");
    }
    stats.sample(serde_json::json!({
        "shape": sc.case.shape, "len": bytes.len(), "hostile": sc.hostile, "fault_free_allocs": reference.allocs, "fault_free_peak": reference.peak,
        "passes": sc.passes.iter().map(|p| format!("{:?} / {} ops", p.budget, p.ops.len())).collect::<Vec<_>>(),
    }));
    Ok(())
}

pub fn minimise(sc: &Scenario, still: &dyn Fn(&Scenario) -> bool) -> Scenario {
    let mut best = sc.clone();
    {
        let mut c = best.clone();
        c.passes.clear();
        if still(&c) {
            return c;
        }
        let mut c = best.clone();
        c.tracker_stress = None;
        if still(&c) {
            best = c;
        }
    }
    // single pass
    for i in 0..best.passes.len() {
        let mut c = best.clone();
        c.passes = vec![best.passes[i].clone()];
        if still(&c) {
            best = c;
            break;
        }
    }
    // drop ops (keep deliveries merged)
    if best.passes.len() == 1 {
        let mut i = 0;
        while i < best.passes[0].ops.len() {
            if matches!(best.passes[0].ops[i], Op::Deliver(n) if n > 0) {
                i += 1;
                continue;
            }
            let mut c = best.clone();
            c.passes[0].ops.remove(i);
            if still(&c) {
                best = c;
            } else {
                i += 1;
            }
        }
        // merge deliveries
        let total: usize = best.passes[0].ops.iter().map(|o| if let Op::Deliver(n) = o { *n } else { 0 }).sum();
        let mut c = best.clone();
        let mut seen = false;
        c.passes[0].ops.retain(|o| match o {
            Op::Deliver(_) => {
                let keep = !seen;
                seen = true;
                keep
            }
            _ => true,
        });
        for o in c.passes[0].ops.iter_mut() {
            if let Op::Deliver(n) = o {
                *n = total;
            }
        }
        if still(&c) {
            best = c;
        }
    }
    best
}
