//! C11 — every prefix of a valid stream means "need more data", never corruption.
use crate::checks::common::*;
use crate::harness::{ErrClass, Stats, Tier, Violation, classify};
use crate::jxlgen::random::GenConfig;
use crate::observe::{ImageObs, observe_full};
use crate::rng::{Rng, derive};
use crate::simio::{ChunkKind, ChunkSchedule};
use serde::{Deserialize, Serialize};

#[derive(Clone, Debug, Serialize, Deserialize)]
pub struct Scenario {
    pub case: StreamCase,
    /// prefix lengths at which the stream stops (ascending); the sweep delivers exactly up to each
    pub cuts: Vec<usize>,
    /// subset of `cuts` at which `render_loading_frame` is attempted during the sweep
    pub render_cuts: Vec<usize>,
    /// cuts exercised on a fresh decoder each: prefix in one piece, render, then the rest
    pub single_cuts: Vec<usize>,
    pub exhaustive: bool,
}

pub fn generate(seed: u64, tier: Tier) -> Scenario {
    let mut rng = Rng::new(derive(seed, 11, 0));
    let mut cfg = if rng.chance(1, 5) { GenConfig::medium() } else { GenConfig::small() }.swarm(&mut rng);
    if rng.chance(1, 2) {
        cfg.max_dim = 40;
        cfg.max_pixels = 40 * 40;
    }
    cfg.vardct = rng.chance(1, 5);
    if cfg.vardct {
        cfg.max_dim = cfg.max_dim.min(40);
        cfg.max_pixels = cfg.max_pixels.min(40 * 40);
    }
    let case = valid_stream(&mut rng, &cfg, if tier == Tier::Quick { 3000 } else { 500 }, 30);
    let len = case.bytes.len();
    let exhaustive = len <= 4096;
    let mut cuts: Vec<usize> = if exhaustive {
        (0..=len).collect()
    } else {
        let mut v = Vec::new();
        for &o in &case.structural {
            for d in -2i64..=2 {
                v.push((o as i64 + d).clamp(0, len as i64) as usize);
            }
        }
        for _ in 0..256 {
            v.push(rng.below(len as u64 + 1) as usize);
        }
        v.push(0);
        v.push(len);
        v
    };
    cuts.sort_unstable();
    cuts.dedup();
    let render_cuts: Vec<usize> = if len <= 1500 {
        cuts.clone()
    } else {
        let mut v: Vec<usize> = case.structural.iter().flat_map(|&o| [o.saturating_sub(1), o, (o + 1).min(len)]).collect();
        let extra = if tier == Tier::Quick { 12 } else { 40 };
        for _ in 0..extra {
            v.push(*rng.pick(&cuts));
        }
        v.sort_unstable();
        v.dedup();
        v.retain(|c| cuts.binary_search(c).is_ok());
        if v.len() > 96 {
            rng.shuffle(&mut v);
            v.truncate(96);
            v.sort_unstable();
        }
        v
    };
    let k = if tier == Tier::Quick { 3 } else { 8 };
    let mut single_cuts: Vec<usize> = (0..k)
        .map(|_| if !case.structural.is_empty() && rng.chance(1, 2) { (*rng.pick(&case.structural) as i64 + rng.range(-2, 2)).clamp(0, len as i64) as usize } else { rng.below(len as u64 + 1) as usize })
        .collect();
    single_cuts.sort_unstable();
    single_cuts.dedup();
    Scenario { case, cuts, render_cuts, single_cuts, exhaustive }
}

pub fn digest(sc: &Scenario) -> u64 {
    let mut h = crate::harness::Fnv::new();
    h.write(&sc.case.bytes);
    for &c in sc.cuts.iter().chain(&sc.render_cuts).chain(&sc.single_cuts) {
        h.write_u64(c as u64);
    }
    h.finish()
}

fn viol(seed: u64, sc: &Scenario, class: String, detail: String) -> Violation {
    let class = sc.case.tag(class);
    Violation { property: "C11".into(), check: "c11".into(), class, detail, seed, scenario: serde_json::to_value(sc).unwrap() }
}

/// Checks the loading render at a cut. Returns a violation description or the outcome label.
fn loading_render(img: &mut jxl_oxide::JxlImage, stats: &mut Stats) -> Result<&'static str, (String, String)> {
    let (w, h) = (img.width() as usize, img.height() as usize);
    match img.render_loading_frame() {
        Ok(r) => {
            let fb = r.image_all_channels();
            if fb.width() != w || fb.height() != h {
                return Err(("loading_render_dims".into(), format!("render_loading_frame returned {}x{} for a {w}x{h} image", fb.width(), fb.height())));
            }
            stats.probe("loading_render_ok");
            Ok("ok")
        }
        Err(e) => match classify(&*e) {
            ErrClass::NeedMoreData => {
                stats.probe("loading_render_need_more");
                Ok("need_more")
            }
            c => Err((format!("loading_render_err:{c:?}"), format!("render_loading_frame on a prefix of a valid stream failed with a non need-more-data error: {e}"))),
        },
    }
}

fn prefix_site(sc: &Scenario, at: usize) -> &'static str {
    // coarse location of a cut, for violation classes
    if !sc.case.container && at <= 2 {
        return "signature";
    }
    "stream"
}

pub fn execute(seed: u64, sc: &Scenario, stats: &mut Stats) -> Result<(), Violation> {
    stats.evaluations += 1;
    let bytes = &sc.case.bytes;
    let opts = LoadOpts::default();
    let reference: ImageObs = match load_with(bytes, &ChunkSchedule::whole(bytes.len()), &opts, |_, _| Ok(())) {
        Ok(img) => observe_full(&img),
        Err(_) => {
            stats.generator_rejects += 1;
            return Ok(());
        }
    };
    if !reference.done || reference.renders.iter().any(|r| !r.is_ok()) {
        stats.generator_rejects += 1;
        return Ok(());
    }
    stats.distinct_sig(&[&sc.case.shape, &sc.exhaustive]);

    // --- sweep: one decoder, stream stops at every cut in turn
    let sched = ChunkSchedule::from_cuts(ChunkKind::Mixed, sc.cuts.clone(), bytes.len());
    let mut cut_viol: Option<(String, String)> = None;
    let mut render_idx = 0usize;
    let render_cuts = &sc.render_cuts;
    let res = load_with(bytes, &sched, &opts, |at, loader| {
        stats.steps += 1;
        stats.fault("eof_at_cut");
        while render_idx < render_cuts.len() && render_cuts[render_idx] < at {
            render_idx += 1;
        }
        if render_idx < render_cuts.len() && render_cuts[render_idx] == at && at < bytes.len() {
            if let Loader::Ready(img) = loader {
                stats.fault("render_at_cut");
                if let Err((c, d)) = loading_render(img, stats) {
                    if cut_viol.is_none() {
                        cut_viol = Some((c, format!("after {at} of {} bytes: {d}", bytes.len())));
                    }
                }
            } else {
                stats.probe("cut_before_init");
            }
        }
        Ok(())
    });
    if let Some((c, d)) = cut_viol {
        return Err(viol(seed, sc, c, d));
    }
    let img = match res {
        Ok(i) => i,
        Err(e) => {
            let (class, at) = match &e {
                LoadError::Feed(_, c, at) => (format!("feed_err_on_prefix:{c:?}"), *at),
                LoadError::Init(_, c, at) => (format!("init_err_on_prefix:{c:?}"), *at),
                LoadError::NeverInitialised => ("never_initialised".to_string(), bytes.len()),
                LoadError::Finalize(_) => ("finalize_error".to_string(), bytes.len()),
            };
            return Err(viol(seed, sc, class, format!("{e} (prefix of a valid {}-byte stream, site: {})", bytes.len(), prefix_site(sc, at))));
        }
    };
    let got = observe_full(&img);
    if let Some(d) = reference.diff(&got) {
        return Err(viol(seed, sc, format!("final_differs:{}", d.split(':').next().unwrap_or("?").split(' ').next().unwrap_or("?")), format!("after stopping at {} cuts ({} with render attempts) the final result differs: {d}", sc.cuts.len(), sc.render_cuts.len())));
    }

    // --- single cuts on fresh decoders: prefix in one piece, render at the cut, then the rest
    for &c in &sc.single_cuts {
        let sched = ChunkSchedule::from_cuts(ChunkKind::Mixed, vec![c], bytes.len());
        let mut cut_viol: Option<(String, String)> = None;
        let mut first = true;
        let res = load_with(bytes, &sched, &opts, |at, loader| {
            if first && at == c && at < bytes.len() {
                first = false;
                if let Loader::Ready(img) = loader {
                    stats.fault("render_at_cut");
                    if let Err((cl, d)) = loading_render(img, stats) {
                        cut_viol = Some((cl, format!("prefix of {at}/{} bytes fed in one piece: {d}", bytes.len())));
                    }
                }
            }
            Ok(())
        });
        if let Some((cl, d)) = cut_viol {
            return Err(viol(seed, sc, cl, d));
        }
        match res {
            Err(e) => {
                let class = match &e {
                    LoadError::Feed(_, c, _) => format!("feed_err_on_prefix:{c:?}"),
                    LoadError::Init(_, c, _) => format!("init_err_on_prefix:{c:?}"),
                    LoadError::NeverInitialised => "never_initialised".to_string(),
                    LoadError::Finalize(_) => "finalize_error".to_string(),
                };
                return Err(viol(seed, sc, class, format!("{e} (single cut at {c} of {})", bytes.len())));
            }
            Ok(img) => {
                let got = observe_full(&img);
                if let Some(d) = reference.diff(&got) {
                    return Err(viol(seed, sc, format!("final_differs:{}", d.split(':').next().unwrap_or("?").split(' ').next().unwrap_or("?")), format!("single cut at {c} with a render attempt changed the final result: {d}")));
                }
            }
        }
    }
    stats.sample(serde_json::json!({
        "source": sc.case.source, "shape": sc.case.shape, "len": bytes.len(), "cuts": sc.cuts.len(),
        "render_cuts": sc.render_cuts.len(), "single_cuts": sc.single_cuts, "exhaustive_over_prefixes": sc.exhaustive,
    }));
    if sc.exhaustive {
        stats.probe("streams_with_every_prefix");
    }
    Ok(())
}

pub fn minimise(sc: &Scenario, still: &dyn Fn(&Scenario) -> bool) -> Scenario {
    let mut best = sc.clone();
    // drop the single cuts, or keep only them
    let mut c = best.clone();
    c.single_cuts.clear();
    if still(&c) {
        best = c;
    } else {
        for i in 0..best.single_cuts.len() {
            let mut c = best.clone();
            c.single_cuts = vec![best.single_cuts[i]];
            c.cuts = vec![0, best.case.bytes.len()];
            c.render_cuts.clear();
            if still(&c) {
                return c;
            }
        }
    }
    // drop renders
    let mut c = best.clone();
    c.render_cuts.clear();
    if still(&c) {
        best = c;
    }
    // bisect the cut list
    let mut chunk = best.cuts.len() / 2;
    while chunk >= 1 {
        let mut i = 0;
        while i < best.cuts.len() {
            let mut c = best.clone();
            let end = (i + chunk).min(c.cuts.len());
            c.cuts.drain(i..end);
            c.render_cuts.retain(|r| c.cuts.binary_search(r).is_ok());
            if still(&c) {
                best = c;
            } else {
                i += chunk;
            }
        }
        chunk /= 2;
    }
    // fewer renders
    let mut i = 0;
    while i < best.render_cuts.len() && best.render_cuts.len() > 1 {
        let mut c = best.clone();
        c.render_cuts.remove(i);
        if still(&c) {
            best = c;
        } else {
            i += 1;
        }
    }
    best
}
