//! Byte delivery seams: chunk schedules, the feed driver implementing the documented protocol,
//! `SimReader`/`SimWriter` with injected faults, and storage faults on stored bytes.
use crate::rng::Rng;
use serde::{Deserialize, Serialize};
use std::io::{self, Read, Write};

#[derive(Clone, Copy, Debug, Serialize, Deserialize, PartialEq, Eq, Hash)]
pub enum ChunkKind {
    Whole,
    OneByte,
    Fixed,
    Geometric,
    Structural,
    InsideHeader,
    Mixed,
}

pub const ALL_CHUNK_KINDS: [ChunkKind; 7] = [
    ChunkKind::Whole,
    ChunkKind::OneByte,
    ChunkKind::Fixed,
    ChunkKind::Geometric,
    ChunkKind::Structural,
    ChunkKind::InsideHeader,
    ChunkKind::Mixed,
];

/// A delivery plan: successive chunk lengths (zero-length chunks allowed) summing to the stream length.
#[derive(Clone, Debug, Serialize, Deserialize)]
pub struct ChunkSchedule {
    pub kind: ChunkKind,
    pub sizes: Vec<usize>,
}

fn cuts_to_sizes(mut cuts: Vec<usize>, len: usize) -> Vec<usize> {
    cuts.retain(|&c| c > 0 && c < len);
    cuts.sort_unstable();
    cuts.dedup();
    let mut sizes = Vec::with_capacity(cuts.len() + 1);
    let mut prev = 0;
    for c in cuts {
        sizes.push(c - prev);
        prev = c;
    }
    sizes.push(len - prev);
    sizes
}

impl ChunkSchedule {
    pub fn whole(len: usize) -> Self {
        Self { kind: ChunkKind::Whole, sizes: vec![len] }
    }

    pub fn from_cuts(kind: ChunkKind, cuts: Vec<usize>, len: usize) -> Self {
        Self { kind, sizes: cuts_to_sizes(cuts, len) }
    }

    /// `structural`: offsets of structure boundaries; `headers`: offsets inside box headers.
    pub fn random(rng: &mut Rng, kind: ChunkKind, len: usize, structural: &[usize], headers: &[usize]) -> Self {
        let mut s = match kind {
            ChunkKind::Whole => Self::whole(len),
            ChunkKind::OneByte => Self { kind, sizes: vec![1; len] },
            ChunkKind::Fixed => {
                let k = *rng.pick(&[2usize, 3, 5, 7, 8, 15, 16, 17, 64, 255, 1000, 4096]);
                let mut sizes = vec![k; len / k];
                if len % k != 0 {
                    sizes.push(len % k);
                }
                Self { kind, sizes }
            }
            ChunkKind::Geometric => {
                let mean = *rng.pick(&[2u64, 8, 40, 300, 3000]);
                let mut sizes = Vec::new();
                let mut left = len;
                while left > 0 {
                    let n = (1 + rng.below(2 * mean)).min(left as u64) as usize;
                    sizes.push(n);
                    left -= n;
                }
                Self { kind, sizes }
            }
            ChunkKind::Structural => {
                let mut cuts = Vec::new();
                for &o in structural {
                    for d in [-1i64, 0, 1] {
                        if rng.chance(2, 3) {
                            cuts.push((o as i64 + d).max(0) as usize);
                        }
                    }
                }
                Self::from_cuts(kind, cuts, len)
            }
            ChunkKind::InsideHeader => {
                let mut cuts = Vec::new();
                for &o in headers {
                    if rng.chance(1, 2) {
                        cuts.push(o);
                    }
                }
                if cuts.is_empty() {
                    cuts.extend(headers.iter().copied());
                }
                Self::from_cuts(kind, cuts, len)
            }
            ChunkKind::Mixed => {
                let mut cuts = Vec::new();
                let pool: Vec<usize> = structural.iter().chain(headers.iter()).copied().collect();
                let n = rng.usize_in(1, 12);
                for _ in 0..n {
                    if !pool.is_empty() && rng.chance(1, 2) {
                        cuts.push((*rng.pick(&pool) as i64 + rng.range(-2, 2)).max(0) as usize);
                    } else if len > 0 {
                        cuts.push(rng.below(len as u64) as usize);
                    }
                }
                Self::from_cuts(kind, cuts, len)
            }
        };
        // sprinkle zero-length feeds
        if kind != ChunkKind::OneByte && rng.chance(1, 4) && !s.sizes.is_empty() {
            let k = rng.usize_in(1, 3);
            for _ in 0..k {
                let pos = rng.usize_in(0, s.sizes.len());
                s.sizes.insert(pos, 0);
            }
        }
        if len == 0 {
            s.sizes = vec![0];
        }
        // bound the number of feed calls per schedule (each call re-parses pending headers)
        const MAX_CHUNKS: usize = 6000;
        if s.sizes.len() > MAX_CHUNKS {
            let group = s.sizes.len().div_ceil(MAX_CHUNKS);
            s.sizes = s.sizes.chunks(group).map(|c| c.iter().sum()).collect();
        }
        s
    }

    pub fn cut_offsets(&self) -> Vec<usize> {
        let mut v = Vec::new();
        let mut acc = 0;
        for &s in &self.sizes {
            acc += s;
            v.push(acc);
        }
        v
    }
}

/// Implements the documented protocol: append the chunk to the pending buffer, offer the whole
/// pending buffer, drop what was consumed, re-offer the rest next time.
pub struct FeedDriver<'a> {
    data: &'a [u8],
    pos: usize,
    pub pending: Vec<u8>,
    pub offered_calls: usize,
    pub max_pending: usize,
}

impl<'a> FeedDriver<'a> {
    pub fn new(data: &'a [u8]) -> Self {
        Self { data, pos: 0, pending: Vec::new(), offered_calls: 0, max_pending: 0 }
    }

    pub fn delivered(&self) -> usize {
        self.pos
    }

    pub fn remaining(&self) -> usize {
        self.data.len() - self.pos
    }

    /// Delivers `n` more bytes through `feed`, which returns the consumed count.
    pub fn deliver<E>(&mut self, n: usize, mut feed: impl FnMut(&[u8]) -> Result<usize, E>) -> Result<usize, E> {
        let n = n.min(self.data.len() - self.pos);
        self.pending.extend_from_slice(&self.data[self.pos..self.pos + n]);
        self.pos += n;
        self.offered_calls += 1;
        self.max_pending = self.max_pending.max(self.pending.len());
        let consumed = feed(&self.pending)?;
        assert!(consumed <= self.pending.len(), "consumed more than offered");
        self.pending.drain(..consumed);
        Ok(consumed)
    }
}

// ---------------------------------------------------------------------------------------------

#[derive(Clone, Debug, Serialize, Deserialize, PartialEq, Eq)]
pub enum ReadFault {
    /// return at most `n` bytes
    Short(usize),
    Interrupted,
    WouldBlock,
    /// hard error
    Error,
    /// premature end of file
    Eof,
}

/// `Read` whose behaviour per call is scripted: `script[i]` applies to the i-th call.
pub struct SimReader<'a> {
    data: &'a [u8],
    pos: usize,
    script: Vec<Option<ReadFault>>,
    call: usize,
    pub fired: Vec<ReadFault>,
    pub eof_forever: bool,
}

impl<'a> SimReader<'a> {
    pub fn new(data: &'a [u8], script: Vec<Option<ReadFault>>) -> Self {
        Self { data, pos: 0, script, call: 0, fired: Vec::new(), eof_forever: false }
    }

    pub fn position(&self) -> usize {
        self.pos
    }
}

impl Read for SimReader<'_> {
    fn read(&mut self, buf: &mut [u8]) -> io::Result<usize> {
        let fault = self.script.get(self.call).cloned().flatten();
        self.call += 1;
        if self.eof_forever {
            return Ok(0);
        }
        let avail = self.data.len() - self.pos;
        let mut n = buf.len().min(avail);
        match fault {
            Some(ReadFault::Short(k)) => {
                if n > k.max(1) {
                    n = k.max(1);
                    self.fired.push(ReadFault::Short(k));
                }
            }
            Some(ReadFault::Interrupted) => {
                self.fired.push(ReadFault::Interrupted);
                return Err(io::Error::new(io::ErrorKind::Interrupted, "sim: interrupted"));
            }
            Some(ReadFault::WouldBlock) => {
                self.fired.push(ReadFault::WouldBlock);
                return Err(io::Error::new(io::ErrorKind::WouldBlock, "sim: would block"));
            }
            Some(ReadFault::Error) => {
                self.fired.push(ReadFault::Error);
                return Err(io::Error::other("sim: hard read error"));
            }
            Some(ReadFault::Eof) => {
                if avail > 0 {
                    self.fired.push(ReadFault::Eof);
                }
                self.eof_forever = true;
                return Ok(0);
            }
            None => {}
        }
        buf[..n].copy_from_slice(&self.data[self.pos..self.pos + n]);
        self.pos += n;
        Ok(n)
    }
}

#[derive(Clone, Debug, Serialize, Deserialize, PartialEq, Eq)]
pub enum WriteFault {
    Short(usize),
    Interrupted,
    Error,
    Zero,
}

pub struct SimWriter {
    pub out: Vec<u8>,
    script: Vec<Option<WriteFault>>,
    call: usize,
    pub fired: Vec<WriteFault>,
}

impl SimWriter {
    pub fn new(script: Vec<Option<WriteFault>>) -> Self {
        Self { out: Vec::new(), script, call: 0, fired: Vec::new() }
    }
}

impl Write for SimWriter {
    fn write(&mut self, buf: &[u8]) -> io::Result<usize> {
        let fault = self.script.get(self.call).cloned().flatten();
        self.call += 1;
        let mut n = buf.len();
        match fault {
            Some(WriteFault::Short(k)) => {
                if n > k.max(1) {
                    n = k.max(1);
                    self.fired.push(WriteFault::Short(k));
                }
            }
            Some(WriteFault::Interrupted) => {
                self.fired.push(WriteFault::Interrupted);
                return Err(io::Error::new(io::ErrorKind::Interrupted, "sim: interrupted"));
            }
            Some(WriteFault::Error) => {
                self.fired.push(WriteFault::Error);
                return Err(io::Error::other("sim: hard write error"));
            }
            Some(WriteFault::Zero) => {
                self.fired.push(WriteFault::Zero);
                return Ok(0);
            }
            None => {}
        }
        self.out.extend_from_slice(&buf[..n]);
        Ok(n)
    }

    fn flush(&mut self) -> io::Result<()> {
        Ok(())
    }
}

// ---------------------------------------------------------------------------------------------

#[derive(Clone, Debug, Serialize, Deserialize, PartialEq, Eq)]
pub enum StorageFault {
    BitFlip { offset: usize, bit: u8 },
    Overwrite { offset: usize, value: u8 },
    Truncate { len: usize },
    DeleteRange { start: usize, len: usize },
    DuplicateRange { start: usize, len: usize },
    SpliceTail { at: usize, #[serde(with = "crate::hexbytes")] tail: Vec<u8> },
}

impl StorageFault {
    pub fn kind(&self) -> &'static str {
        match self {
            Self::BitFlip { .. } => "bit_flip",
            Self::Overwrite { .. } => "overwrite",
            Self::Truncate { .. } => "truncate",
            Self::DeleteRange { .. } => "delete_range",
            Self::DuplicateRange { .. } => "duplicate_range",
            Self::SpliceTail { .. } => "splice_tail",
        }
    }

    /// Applies the fault; returns whether it changed anything (fired).
    pub fn apply(&self, data: &mut Vec<u8>) -> bool {
        match self {
            Self::BitFlip { offset, bit } => {
                if let Some(b) = data.get_mut(*offset) {
                    *b ^= 1 << (bit & 7);
                    true
                } else {
                    false
                }
            }
            Self::Overwrite { offset, value } => {
                if let Some(b) = data.get_mut(*offset) {
                    let changed = *b != *value;
                    *b = *value;
                    changed
                } else {
                    false
                }
            }
            Self::Truncate { len } => {
                if *len < data.len() {
                    data.truncate(*len);
                    true
                } else {
                    false
                }
            }
            Self::DeleteRange { start, len } => {
                if *start < data.len() && *len > 0 {
                    let end = (*start + *len).min(data.len());
                    data.drain(*start..end);
                    true
                } else {
                    false
                }
            }
            Self::DuplicateRange { start, len } => {
                if *start < data.len() && *len > 0 {
                    let end = (*start + *len).min(data.len());
                    let dup: Vec<u8> = data[*start..end].to_vec();
                    let tail: Vec<u8> = data.split_off(end);
                    data.extend_from_slice(&dup);
                    data.extend_from_slice(&tail);
                    true
                } else {
                    false
                }
            }
            Self::SpliceTail { at, tail } => {
                let at = (*at).min(data.len());
                data.truncate(at);
                data.extend_from_slice(tail);
                true
            }
        }
    }

    /// Draws a fault aimed at `regions` (byte ranges of interest) or uniformly.
    pub fn random(rng: &mut Rng, len: usize, regions: &[(usize, usize)]) -> Self {
        let pick_offset = |rng: &mut Rng| -> usize {
            if !regions.is_empty() && rng.chance(3, 4) {
                let (s, e) = *rng.pick(regions);
                if e > s { s + rng.below((e - s) as u64) as usize } else { s }
            } else if len > 0 {
                rng.below(len as u64) as usize
            } else {
                0
            }
        };
        match rng.below(12) {
            0..=5 => Self::BitFlip { offset: pick_offset(rng), bit: rng.below(8) as u8 },
            6 | 7 => Self::Overwrite { offset: pick_offset(rng), value: *rng.pick(&[0u8, 1, 0x7f, 0x80, 0xfe, 0xff]) },
            8 => Self::Truncate { len: pick_offset(rng) },
            9 => Self::DeleteRange { start: pick_offset(rng), len: rng.usize_in(1, 16) },
            10 => Self::DuplicateRange { start: pick_offset(rng), len: rng.usize_in(1, 16) },
            _ => Self::SpliceTail { at: pick_offset(rng), tail: (0..rng.usize_in(1, 64)).map(|_| rng.next_u32() as u8).collect() },
        }
    }
}
