//! Observation of everything the properties name on a `JxlImage`, in a process-independent form.
use crate::harness::{ErrClass, Fnv, classify};
use jxl_oxide::{JxlImage, Render};

#[derive(Clone, Debug, PartialEq)]
pub enum RenderObs {
    Ok { width: usize, height: usize, channels: usize, digest: u64, bits: Vec<u32> },
    Err(ErrClass),
}

impl RenderObs {
    pub fn from_render(r: &Render) -> Self {
        let fb = r.image_all_channels();
        let bits: Vec<u32> = fb.buf().iter().map(|f| f.to_bits()).collect();
        let mut h = Fnv::new();
        h.write_u64(fb.width() as u64);
        h.write_u64(fb.height() as u64);
        h.write_u64(fb.channels() as u64);
        for b in &bits {
            h.write_u32(*b);
        }
        RenderObs::Ok { width: fb.width(), height: fb.height(), channels: fb.channels(), digest: h.finish(), bits }
    }

    pub fn from_result(r: &jxl_oxide::Result<Render>) -> Self {
        match r {
            Ok(r) => Self::from_render(r),
            Err(e) => RenderObs::Err(classify(&**e)),
        }
    }

    pub fn digest(&self) -> u64 {
        match self {
            RenderObs::Ok { digest, .. } => *digest,
            RenderObs::Err(c) => 0xE000 + *c as u64,
        }
    }

    pub fn is_ok(&self) -> bool {
        matches!(self, RenderObs::Ok { .. })
    }

    pub fn short(&self) -> String {
        match self {
            RenderObs::Ok { width, height, channels, digest, .. } => format!("Ok({width}x{height}x{channels} #{digest:016x})"),
            RenderObs::Err(c) => format!("Err({c:?})"),
        }
    }

    /// Describes the first difference between two renders, if any.
    pub fn diff(&self, other: &RenderObs) -> Option<String> {
        match (self, other) {
            (RenderObs::Ok { width: w0, height: h0, channels: c0, bits: b0, .. }, RenderObs::Ok { width: w1, height: h1, channels: c1, bits: b1, .. }) => {
                if (w0, h0, c0) != (w1, h1, c1) {
                    return Some(format!("dimensions {w0}x{h0}x{c0} vs {w1}x{h1}x{c1}"));
                }
                for (i, (a, b)) in b0.iter().zip(b1).enumerate() {
                    if a != b {
                        let px = i / c0;
                        return Some(format!(
                            "sample differs at x={} y={} c={}: {:?} vs {:?}",
                            px % w0,
                            px / w0,
                            i % c0,
                            f32::from_bits(*a),
                            f32::from_bits(*b)
                        ));
                    }
                }
                None
            }
            (a, b) => {
                if a == b {
                    None
                } else {
                    Some(format!("{} vs {}", a.short(), b.short()))
                }
            }
        }
    }

    /// Max abs difference with tolerance comparison (NaN-aware: both NaN is equal).
    pub fn diff_tol(&self, other: &RenderObs, tol: f32) -> Option<String> {
        match (self, other) {
            (RenderObs::Ok { width: w0, height: h0, channels: c0, bits: b0, .. }, RenderObs::Ok { width: w1, height: h1, channels: c1, bits: b1, .. }) => {
                if (w0, h0, c0) != (w1, h1, c1) {
                    return Some(format!("dimensions {w0}x{h0}x{c0} vs {w1}x{h1}x{c1}"));
                }
                for (i, (a, b)) in b0.iter().zip(b1).enumerate() {
                    let (fa, fb) = (f32::from_bits(*a), f32::from_bits(*b));
                    let same = a == b || (fa.is_nan() && fb.is_nan()) || (fa - fb).abs() <= tol;
                    if !same {
                        let px = i / c0;
                        return Some(format!("sample differs at x={} y={} c={}: {fa:?} vs {fb:?}", px % w0, px / w0, i % c0));
                    }
                }
                None
            }
            (a, b) => self_diff(a, b),
        }
    }
}

fn self_diff(a: &RenderObs, b: &RenderObs) -> Option<String> {
    if a == b { None } else { Some(format!("{} vs {}", a.short(), b.short())) }
}

/// Everything C09/C11 compare at the end of a load.
#[derive(Clone, Debug, PartialEq)]
pub struct ImageObs {
    pub header: String,
    pub dims: (u32, u32),
    pub frames: usize,
    pub keyframes: usize,
    pub offsets: Vec<Option<usize>>,
    pub done: bool,
    pub frame_headers: Vec<String>,
    pub tocs: Vec<String>,
    pub exif: String,
    pub xml: String,
    pub jbrd: String,
    pub icc: u64,
    pub renders: Vec<RenderObs>,
}

pub fn observe_meta(image: &JxlImage) -> ImageObs {
    let frames = image.num_loaded_frames();
    let mut frame_headers = Vec::new();
    let mut tocs = Vec::new();
    let mut offsets = Vec::new();
    for i in 0..frames + 1 {
        offsets.push(image.frame_offset(i));
        if let Some(f) = image.frame(i) {
            frame_headers.push(format!("{:?}", f.header()));
            let toc = f.toc();
            let groups: Vec<String> = toc.iter_bitstream_order().map(|g| format!("{:?}@{}+{}", g.kind, g.offset, g.size)).collect();
            tocs.push(format!("{:?} [{}]", toc, groups.join(",")));
        }
    }
    let exif = match image.aux_boxes().first_exif() {
        Ok(d) => match d {
            jxl_oxide::AuxBoxData::Data(e) => format!("Data(off={},{})", e.tiff_header_offset(), crate::hexbytes::to_hex(e.payload())),
            jxl_oxide::AuxBoxData::Decoding => "Decoding".to_string(),
            jxl_oxide::AuxBoxData::NotFound => "NotFound".to_string(),
        },
        Err(_) => "Err".to_string(),
    };
    let xml = match image.aux_boxes().first_xml() {
        jxl_oxide::AuxBoxData::Data(d) => format!("Data({})", crate::hexbytes::to_hex(d)),
        jxl_oxide::AuxBoxData::Decoding => "Decoding".to_string(),
        jxl_oxide::AuxBoxData::NotFound => "NotFound".to_string(),
    };
    ImageObs {
        header: format!("{:?}", image.image_header()),
        dims: (image.width(), image.height()),
        frames,
        keyframes: image.num_loaded_keyframes(),
        offsets,
        done: image.is_loading_done(),
        frame_headers,
        tocs,
        exif,
        xml,
        jbrd: format!("{:?}", image.jpeg_reconstruction_status()),
        icc: image.original_icc().map(crate::harness::hash_bytes).unwrap_or(0),
        renders: Vec::new(),
    }
}

pub fn observe_full(image: &JxlImage) -> ImageObs {
    let mut o = observe_meta(image);
    for k in 0..image.num_loaded_keyframes() {
        o.renders.push(RenderObs::from_result(&image.render_frame(k)));
    }
    o
}

impl ImageObs {
    pub fn diff(&self, other: &ImageObs) -> Option<String> {
        macro_rules! cmp {
            ($f:ident) => {
                if self.$f != other.$f {
                    return Some(format!(concat!(stringify!($f), ": {:?} vs {:?}"), self.$f, other.$f));
                }
            };
        }
        cmp!(header);
        cmp!(dims);
        cmp!(frames);
        cmp!(keyframes);
        cmp!(offsets);
        cmp!(done);
        cmp!(frame_headers);
        cmp!(tocs);
        cmp!(exif);
        cmp!(xml);
        cmp!(jbrd);
        cmp!(icc);
        if self.renders.len() != other.renders.len() {
            return Some(format!("render count {} vs {}", self.renders.len(), other.renders.len()));
        }
        for (k, (a, b)) in self.renders.iter().zip(&other.renders).enumerate() {
            if let Some(d) = a.diff(b) {
                return Some(format!("keyframe {k}: {d}"));
            }
        }
        None
    }

    pub fn digest(&self) -> u64 {
        let mut h = Fnv::new();
        h.write(self.header.as_bytes());
        h.write_u64(self.frames as u64);
        h.write_u64(self.keyframes as u64);
        h.write(format!("{:?}{}{:?}{:?}", self.offsets, self.done, self.frame_headers, self.tocs).as_bytes());
        h.write(self.exif.as_bytes());
        h.write(self.xml.as_bytes());
        h.write(self.jbrd.as_bytes());
        for r in &self.renders {
            h.write_u64(r.digest());
        }
        h.finish()
    }
}
