//! C05 — frames are composed onto the canvas exactly as the blend rules define.
//!
//! Each frame's own samples come from a *standalone* single-frame stream with the same sample
//! data (decoded by the library, which isolates composition from sample decoding); a reference
//! compositor in this file applies the blend rules; the library's keyframes, requested in a seeded
//! history (any order, with repeats), must equal the model.
use crate::checks::common::*;
use crate::harness::{Stats, Tier, Violation};
use crate::jxlgen::random::{GenConfig, random_program};
use crate::jxlgen::*;
use crate::rng::{Rng, derive};
use crate::simio::ChunkSchedule;
use jxl_oxide::JxlThreadPool;
use serde::{Deserialize, Serialize};

#[derive(Clone, Debug, Serialize, Deserialize)]
pub struct Scenario {
    pub program: Program,
    #[serde(with = "crate::hexbytes")]
    pub bytes: Vec<u8>,
    /// standalone stream per frame
    pub standalone: Vec<crate::checks::c05::Hex>,
    /// keyframe indices to request, in order (repeats allowed; reduced modulo the keyframe count)
    pub history: Vec<usize>,
    pub force_wide: bool,
    pub shape: String,
}

#[derive(Clone, Debug, Serialize, Deserialize)]
pub struct Hex(#[serde(with = "crate::hexbytes")] pub Vec<u8>);

fn t_uses_alpha(mode: u32) -> bool {
    mode >= 4
}

fn standalone_of(p: &Program, f: &FrameSpec) -> Program {
    let (fw, fh) = p.frame_dims(f);
    let mut q = p.clone();
    q.width = fw;
    q.height = fh;
    q.size_form = SizeForm::Explicit;
    q.orientation = 1;
    q.animation = None;
    q.intrinsic_size = None;
    q.preview = None;
    let mut g = f.clone();
    g.kind = FrameKind::Regular;
    g.crop = None;
    g.blend = BlendSpec { mode: BlendMode::Replace, alpha_channel: 0, clamp: false, source: 0 };
    g.ec_blend = p.extra.iter().map(|_| BlendSpec { mode: BlendMode::Replace, alpha_channel: 0, clamp: false, source: 0 }).collect();
    g.duration = 0;
    g.is_last = true;
    g.save_as_reference = 0;
    g.save_before_ct = false;
    // the frame's own samples: patches are applied by the model
    g.patches = None;
    g.splines = None;
    // ReferenceOnly frames do not code passes; a Regular frame does (single pass = same layout)
    q.frames = vec![g];
    q
}

pub fn generate(seed: u64, tier: Tier) -> Scenario {
    let mut rng = Rng::new(derive(seed, 5, 0));
    let mut cfg = GenConfig { max_dim: 64, max_frames: 6, min_frames: 2, max_pixels: 64 * 64, noise: false, orientation: false, features: true, splines: false, ..GenConfig::small() }.swarm(&mut rng);
    cfg.noise = false;
    cfg.orientation = false;
    cfg.blending = true;
    cfg.animation |= rng.chance(1, 2);
    if rng.chance(1, 6) {
        cfg.max_dim = 200;
        cfg.max_pixels = 200 * 160;
        cfg.multi_group = true;
    }
    let mut program = random_program(&mut rng, &cfg);
    program.orientation = 1;
    // Blend / MulAdd without any extra channel has no alpha to refer to: keep C05 to the defined cases
    if program.extra.is_empty() {
        for f in &mut program.frames {
            if matches!(f.blend.mode, BlendMode::Blend | BlendMode::MulAdd) {
                f.blend.mode = BlendMode::Add;
            }
        }
    }
    // A frame whose colour rule is Replace over the whole canvas "resets the canvas": the decoder
    // (and its header layout, which this generator mirrors) treats every channel as replaced.
    // Extra-channel blend modes on such frames are left out of C05 (ambiguous territory).
    for i in 0..program.frames.len() {
        if program.frame_resets_canvas(&program.frames[i]) {
            for b in &mut program.frames[i].ec_blend {
                b.mode = BlendMode::Replace;
            }
        }
    }
    // Patches ("follow the same arithmetic"): the model applies them to the frame's own samples as
    // decoded standalone, i.e. at full resolution — keep them to frames that are not upsampled (the
    // format applies patches before upsampling). Extra channels other than the alpha channel a
    // colour entry refers to use the alpha-free modes, so that the result does not depend on the
    // order in which channels are updated. Half of the programs get patches on every eligible frame.
    {
        let mut prng = Rng::new(program.cw_seed ^ 0xC05_0000_0001);
        let more = prng.chance(1, 2);
        let alpha_idx: Vec<usize> = program.extra.iter().enumerate().filter(|(_, e)| matches!(e.kind, EcKind::Alpha { .. })).map(|(i, _)| i).collect();
        for i in 0..program.frames.len() {
            let plain = program.frames[i].upsampling == 1 && program.frames[i].ec_upsampling.iter().all(|&u| u == 1) && program.extra.iter().all(|e| e.dim_shift == 0);
            if !plain {
                program.frames[i].patches = None;
                continue;
            }
            if more && program.frames[i].patches.is_none() {
                let mut slots: [Option<(u32, u32)>; 4] = [None; 4];
                for q in &program.frames[..i] {
                    if Program::frame_can_reference(q) {
                        slots[q.save_as_reference as usize] = if q.crop.is_some() { None } else { Some(program.frame_dims(q)) };
                    }
                }
                let f = &program.frames[i];
                let inside = match f.crop {
                    None => true,
                    Some((x0, y0, w, h)) => x0 >= 0 && y0 >= 0 && x0 as i64 + w as i64 <= program.width as i64 && y0 as i64 + h as i64 <= program.height as i64,
                };
                if inside {
                    let dims = program.frame_dims(f);
                    let ps = crate::jxlgen::features::PatchSpec::random(&mut prng, &program, dims, &slots, true);
                    program.frames[i].patches = ps;
                }
            }
            if let Some(ps) = program.frames[i].patches.as_mut() {
                for r in &mut ps.refs {
                    for t in &mut r.targets {
                        let colour_alpha = t.2[0].alpha as usize;
                        for (ci, b) in t.2.iter_mut().enumerate().skip(1) {
                            let ec = ci - 1;
                            if alpha_idx.contains(&ec) && ec == colour_alpha && t_uses_alpha(b.mode) {
                                // the alpha channel itself: keep (mix / keep / replace rules)
                                b.alpha = colour_alpha as u32;
                            } else if b.mode >= 4 {
                                b.mode %= 4;
                            }
                        }
                    }
                }
            }
        }
    }
    let shape = program_shape(&program);
    let (bytes, _) = program.encode().expect("encode");
    let standalone = program.frames.iter().map(|f| Hex(standalone_of(&program, f).encode().expect("encode standalone").0)).collect();
    let nkey = program.frames.iter().filter(|f| Program::frame_is_keyframe(f)).count().max(1);
    let n = if tier == Tier::Quick { rng.usize_in(nkey, nkey + 3) } else { rng.usize_in(nkey, 3 * nkey + 4) };
    let mut history: Vec<usize> = (0..n).map(|_| rng.below(nkey as u64) as usize).collect();
    // every keyframe at least once
    for k in 0..nkey {
        if !history.contains(&k) {
            let pos = rng.usize_in(0, history.len());
            history.insert(pos, k);
        }
    }
    Scenario { program, bytes, standalone, history, force_wide: rng.chance(1, 5), shape }
}

pub fn digest(sc: &Scenario) -> u64 {
    let mut h = crate::harness::Fnv::new();
    h.write(&sc.bytes);
    h.write(format!("{:?}", sc.history).as_bytes());
    h.finish()
}

fn viol(seed: u64, sc: &Scenario, class: String, detail: String) -> Violation {
    Violation { property: "C05".into(), check: "c05".into(), class, detail, seed, scenario: serde_json::to_value(sc).unwrap() }
}

/// planar image: channels x (w*h)
#[derive(Clone)]
struct Img {
    w: usize,
    h: usize,
    ch: Vec<Vec<f32>>,
}

fn decode_planar(bytes: &[u8], force_wide: bool) -> Result<Img, String> {
    let opts = LoadOpts { force_wide, pool: JxlThreadPool::none(), tracker: None };
    let img = load_with(bytes, &ChunkSchedule::whole(bytes.len()), &opts, |_, _| Ok(())).map_err(|e| e.to_string())?;
    let r = img.render_frame(0).map_err(|e| e.to_string())?;
    let p = r.image_planar();
    Ok(Img { w: p[0].width(), h: p[0].height(), ch: p.iter().map(|f| f.buf().to_vec()).collect() })
}

fn blend_sample(mode: BlendMode, is_alpha_channel: bool, premultiplied: bool, clamp: bool, base: f32, new: f32, base_alpha: f32, new_alpha: f32) -> f32 {
    match mode {
        BlendMode::Replace => new,
        BlendMode::Add => base + new,
        BlendMode::Mul => base * if clamp { new.clamp(0.0, 1.0) } else { new },
        BlendMode::Blend => {
            if is_alpha_channel {
                let n = if clamp { new.clamp(0.0, 1.0) } else { new };
                base + n * (1.0 - base)
            } else {
                let na = if clamp { new_alpha.clamp(0.0, 1.0) } else { new_alpha };
                if premultiplied {
                    new + base * (1.0 - na)
                } else {
                    let mixed = 1.0 - (1.0 - na) * (1.0 - base_alpha);
                    let recip = if mixed > 0.0 { 1.0 / mixed } else { 0.0 };
                    (na * new + base_alpha * base * (1.0 - na)) * recip
                }
            }
        }
        BlendMode::MulAdd => {
            if is_alpha_channel {
                base
            } else {
                let na = if clamp { new_alpha.clamp(0.0, 1.0) } else { new_alpha };
                base + na * new
            }
        }
    }
}

/// Reference compositor: returns the displayed canvas of every keyframe.
fn compose(p: &Program, frames: &[Img]) -> Vec<Img> {
    let mut slots: [Option<Img>; 4] = [None, None, None, None];
    compose_upto(p, frames, &mut slots)
}

fn compose_upto(p: &Program, frames: &[Img], slots: &mut [Option<Img>; 4]) -> Vec<Img> {
    let (w, h) = (p.width as usize, p.height as usize);
    let ncol = p.num_color();
    let nch = ncol + p.extra.len();
    let mut shown = Vec::new();
    for (f, fi) in p.frames.iter().zip(frames) {
        let patched;
        let fi = if let Some(ps) = &f.patches {
            patched = apply_patches(p, ps, fi, slots);
            &patched
        } else {
            fi
        };
        let normal = Program::frame_is_normal(f);
        if !normal {
            // reference-only: stored as decoded, never blended, never shown
            slots[f.save_as_reference as usize] = Some(fi.clone());
            continue;
        }
        let (x0, y0) = f.crop.map(|c| (c.0 as i64, c.1 as i64)).unwrap_or((0, 0));
        let mut out = Img { w, h, ch: vec![vec![0.0; w * h]; nch] };
        for c in 0..nch {
            let info = if c < ncol { &f.blend } else { &f.ec_blend[c - ncol] };
            let uses_alpha = matches!(info.mode, BlendMode::Blend | BlendMode::MulAdd) && !p.extra.is_empty();
            let alpha_c = ncol + info.alpha_channel as usize;
            let premultiplied = uses_alpha && matches!(p.extra[info.alpha_channel as usize].kind, EcKind::Alpha { associated: true });
            let base_img = slots[info.source as usize].as_ref();
            for y in 0..h {
                for x in 0..w {
                    let base = base_img.map(|b| sample(b, c, x, y)).unwrap_or(0.0);
                    let fx = x as i64 - x0;
                    let fy = y as i64 - y0;
                    let inside = fx >= 0 && fy >= 0 && (fx as usize) < fi.w && (fy as usize) < fi.h;
                    out.ch[c][y * w + x] = if inside {
                        let new = fi.ch[c][fy as usize * fi.w + fx as usize];
                        let (ba, na) = if uses_alpha {
                            (base_img.map(|b| sample(b, alpha_c, x, y)).unwrap_or(0.0), fi.ch[alpha_c][fy as usize * fi.w + fx as usize])
                        } else {
                            (0.0, 0.0)
                        };
                        blend_sample(info.mode, uses_alpha && c == alpha_c, premultiplied, info.clamp, base, new, ba, na)
                    } else {
                        base
                    };
                }
            }
        }
        if Program::frame_can_reference(&FrameSpec { duration: if p.animation.is_some() { f.duration } else { 0 }, ..f.clone() }) {
            slots[f.save_as_reference as usize] = Some(out.clone());
        }
        let duration = if p.animation.is_some() { f.duration } else { 0 };
        if f.is_last || duration != 0 {
            shown.push(out);
        }
    }
    shown
}

/// Patches: rectangles of reference frames blended into the frame's own samples, in the order
/// listed, with the patch blend modes (none, replace, add, multiply, blend above / below,
/// alpha-weighted add above / below) — the same arithmetic as the frame blend modes, with the
/// patch as the new layer ("above") or as the old one ("below").
fn apply_patches(p: &Program, ps: &crate::jxlgen::features::PatchSpec, own: &Img, slots: &[Option<Img>; 4]) -> Img {
    let ncol = p.num_color();
    let nch = ncol + p.extra.len();
    let mut img = own.clone();
    for r in &ps.refs {
        let Some(src) = slots[r.ref_idx as usize].as_ref() else { continue };
        for (tx, ty, blends) in &r.targets {
            // all channels are computed from the values before this patch target is applied
            let before = img.clone();
            for c in 0..nch {
                let b = if c < ncol { &blends[0] } else { &blends[1 + c - ncol] };
                if b.mode == 0 {
                    continue;
                }
                let uses_alpha = b.mode >= 4;
                let alpha_c = ncol + b.alpha as usize;
                let premultiplied = uses_alpha && matches!(p.extra.get(b.alpha as usize).map(|e| &e.kind), Some(EcKind::Alpha { associated: true }));
                for dy in 0..r.h as i64 {
                    for dx in 0..r.w as i64 {
                        let (x, y) = (*tx as i64 + dx, *ty as i64 + dy);
                        let (sx, sy) = (r.x0 as i64 + dx, r.y0 as i64 + dy);
                        if x < 0 || y < 0 || x as usize >= img.w || y as usize >= img.h || sx as usize >= src.w || sy as usize >= src.h {
                            continue;
                        }
                        let (x, y, sx, sy) = (x as usize, y as usize, sx as usize, sy as usize);
                        let old = before.ch[c][y * img.w + x];
                        let pat = src.ch[c][sy * src.w + sx];
                        let (old_a, pat_a) = if uses_alpha { (before.ch[alpha_c][y * img.w + x], src.ch[alpha_c][sy * src.w + sx]) } else { (0.0, 0.0) };
                        let is_alpha = uses_alpha && c == alpha_c;
                        img.ch[c][y * img.w + x] = match b.mode {
                            1 => pat,
                            2 => old + pat,
                            3 => blend_sample(BlendMode::Mul, false, false, b.clamp, old, pat, 0.0, 0.0),
                            // blend: patch above the frame / below it
                            4 => blend_sample(BlendMode::Blend, is_alpha, premultiplied, b.clamp, old, pat, old_a, pat_a),
                            5 => blend_sample(BlendMode::Blend, is_alpha, premultiplied, b.clamp, pat, old, pat_a, old_a),
                            // alpha-weighted add: the alpha channel keeps the value of the lower layer
                            6 => if is_alpha { old } else { blend_sample(BlendMode::MulAdd, false, premultiplied, b.clamp, old, pat, old_a, pat_a) },
                            7 => if is_alpha { pat } else { blend_sample(BlendMode::MulAdd, false, premultiplied, b.clamp, pat, old, pat_a, old_a) },
                            _ => old,
                        };
                    }
                }
            }
        }
    }
    img
}

fn sample(img: &Img, c: usize, x: usize, y: usize) -> f32 {
    if x < img.w && y < img.h { img.ch[c][y * img.w + x] } else { 0.0 }
}

/// Trigger of known finding F14 as seen by C05: a frame that uses alpha blending (Blend / MulAdd
/// with an alpha extra channel) and whose crop rectangle lies partly outside the canvas.
fn known_site(p: &Program) -> &'static str {
    for f in &p.frames {
        if !Program::frame_is_normal(f) {
            continue;
        }
        let alpha = !p.extra.is_empty() && std::iter::once(&f.blend).chain(&f.ec_blend).any(|b| matches!(b.mode, BlendMode::Blend | BlendMode::MulAdd));
        if let Some((x0, y0, w, h)) = f.crop {
            let outside = x0 < 0 || y0 < 0 || x0 as i64 + w as i64 > p.width as i64 || y0 as i64 + h as i64 > p.height as i64;
            if alpha && outside {
                return "alpha_blend_on_crop_partly_outside_canvas";
            }
        }
    }
    // same family through the patch stage: an alpha-using patch blend mode in a program where some
    // frame reaches outside the canvas (the reference grids then carry per-channel regions that
    // differ, and blend::patch indexes the source alpha with the colour channel's offsets)
    let any_outside = p.frames.iter().any(|f| match f.crop {
        Some((x0, y0, w, h)) => x0 < 0 || y0 < 0 || x0 as i64 + w as i64 > p.width as i64 || y0 as i64 + h as i64 > p.height as i64,
        None => false,
    });
    let patch_alpha = p.frames.iter().any(|f| f.patches.as_ref().map(|ps| ps.refs.iter().any(|r| r.targets.iter().any(|t| t.2.iter().any(|b| b.mode >= 4)))).unwrap_or(false));
    if any_outside && patch_alpha {
        return "patch_alpha_blend_with_crop_partly_outside_canvas";
    }
    "other"
}

/// Which blend features the program uses (for violation classes and distinct signatures).
fn features(p: &Program) -> String {
    let mut s = std::collections::BTreeSet::new();
    for f in &p.frames {
        if !Program::frame_is_normal(f) {
            s.insert("refonly".to_string());
            continue;
        }
        for b in std::iter::once(&f.blend).chain(&f.ec_blend) {
            s.insert(format!("{:?}", b.mode));
        }
        if f.crop.is_some() {
            s.insert("crop".into());
        }
        if f.upsampling > 1 {
            s.insert("up".into());
        }
        if let Some(ps) = &f.patches {
            for r in &ps.refs {
                for t in &r.targets {
                    for b in &t.2 {
                        s.insert(format!("patch{}", b.mode));
                    }
                }
            }
        }
    }
    s.into_iter().collect::<Vec<_>>().join("+")
}

pub fn execute(seed: u64, sc: &Scenario, stats: &mut Stats) -> Result<(), Violation> {
    stats.evaluations += 1;
    let p = &sc.program;
    crate::harness::heartbeat("c05-standalone");
    let mut frames = Vec::new();
    for (i, s) in sc.standalone.iter().enumerate() {
        match decode_planar(&s.0, sc.force_wide) {
            Ok(img) => {
                let (fw, fh) = p.frame_dims(&p.frames[i]);
                if img.w != fw as usize || img.h != fh as usize {
                    stats.generator_rejects += 1;
                    return Ok(());
                }
                frames.push(img);
            }
            Err(_) => {
                stats.generator_rejects += 1;
                return Ok(());
            }
        }
    }
    let model = compose(p, &frames);
    let opts = LoadOpts { force_wide: sc.force_wide, pool: JxlThreadPool::none(), tracker: None };
    crate::harness::heartbeat("c05-load");
    let img = match load_with(&sc.bytes, &ChunkSchedule::whole(sc.bytes.len()), &opts, |_, _| Ok(())) {
        Ok(i) => i,
        Err(e) => return Err(viol(seed, sc, "stream_rejected".into(), format!("multi-frame stream rejected although every frame decodes standalone: {e}"))),
    };
    let nkey = img.num_loaded_keyframes();
    if nkey != model.len() {
        return Err(viol(seed, sc, "keyframe_count".into(), format!("decoder reports {nkey} keyframes, the frame list defines {}", model.len())));
    }
    let feats = features(p);
    for (step, &k) in sc.history.iter().enumerate() {
        let k = k % nkey.max(1);
        stats.steps += 1;
        crate::harness::heartbeat("c05-render");
        let r = match img.render_frame(k) {
            Ok(r) => r,
            Err(e) => return Err(viol(seed, sc, "render_error".into(), format!("history step {step}: render_frame({k}) failed: {e}"))),
        };
        let planes = r.image_planar();
        let want = &model[k];
        if planes.len() != want.ch.len() || planes[0].width() != want.w || planes[0].height() != want.h {
            return Err(viol(seed, sc, "shape".into(), format!("keyframe {k}: {} planes of {}x{}, model has {} of {}x{}", planes.len(), planes[0].width(), planes[0].height(), want.ch.len(), want.w, want.h)));
        }
        for (c, (pl, wc)) in planes.iter().zip(&want.ch).enumerate() {
            for (i, (a, b)) in pl.buf().iter().zip(wc).enumerate() {
                let ok = a.to_bits() == b.to_bits() || (a.is_nan() && b.is_nan()) || (a - b).abs() <= 1e-5 * (1.0 + b.abs());
                if !ok {
                    let first = !sc.history[..step].contains(&sc.history[step]);
                    return Err(viol(
                        seed,
                        sc,
                        format!("composition_differs:{}:{}", if first { "first_request" } else { "repeated_request" }, known_site(p)),
                        format!("history step {step} (keyframe {k}, features {feats}): channel {c} at x={} y={}: decoder {a:?}, reference compositor {b:?}", i % want.w, i / want.w),
                    ));
                }
            }
        }
        stats.fault("keyframe_request");
    }
    stats.distinct_sig(&[&sc.shape, &feats, &sc.history.len().min(6)]);
    stats.sample(serde_json::json!({"shape": sc.shape, "features": feats, "frames": p.frames.len(), "keyframes": nkey, "history": sc.history}));
    Ok(())
}

pub fn minimise(sc: &Scenario, still: &dyn Fn(&Scenario) -> bool) -> Scenario {
    let mut best = sc.clone();
    best.program.rebuild();
    // shorten the history
    let mut i = 0;
    while i < best.history.len() && best.history.len() > 1 {
        let mut c = best.clone();
        c.history.remove(i);
        if still(&c) {
            best = c;
        } else {
            i += 1;
        }
    }
    // drop leading frames that are not needed (re-encode)
    loop {
        if best.program.frames.len() <= 1 {
            break;
        }
        let mut c = best.clone();
        let removed = c.program.frames.remove(0);
        let was_key = Program::frame_is_keyframe(&removed);
        c.standalone.remove(0);
        if was_key {
            c.history = c.history.iter().filter(|&&k| k > 0).map(|k| k - 1).collect();
            if c.history.is_empty() {
                break;
            }
        }
        match c.program.encode() {
            Ok((b, _)) => c.bytes = b,
            Err(_) => break,
        }
        if still(&c) {
            best = c;
        } else {
            break;
        }
    }
    best
}

/// Triage helper: prints decoder vs model around a pixel.
pub fn debug(sc: &Scenario, k: usize, x: usize, y: usize) {
    // C05_EDIT="nocrop<i>" / "nopatchalpha": triage edits applied to the program before re-encoding
    let mut sc = sc.clone();
    if let Ok(e) = std::env::var("C05_EDIT") {
        sc.program.rebuild();
        for tok in e.split(',') {
            if let Some(i) = tok.strip_prefix("nocrop").and_then(|t| t.parse::<usize>().ok()) {
                sc.program.frames[i].crop = None;
            }
            if let Some(i) = tok.strip_prefix("replace").and_then(|t| t.parse::<usize>().ok()) {
                for b in &mut sc.program.frames[i].ec_blend {
                    b.mode = BlendMode::Replace;
                }
            }
        }
        sc.program.fix_transforms();
        sc.bytes = sc.program.encode().expect("encode").0;
        sc.standalone = sc.program.frames.iter().map(|f| Hex(standalone_of(&sc.program, f).encode().expect("encode standalone").0)).collect();
    }
    let sc = &sc;
    let p = &sc.program;
    let frames: Vec<Img> = sc.standalone.iter().map(|s| decode_planar(&s.0, sc.force_wide).unwrap()).collect();
    let model = compose(p, &frames);
    let opts = LoadOpts { force_wide: sc.force_wide, pool: JxlThreadPool::none(), tracker: None };
    let img = load_with(&sc.bytes, &ChunkSchedule::whole(sc.bytes.len()), &opts, |_, _| Ok(())).unwrap();
    let r = img.render_frame(k).unwrap();
    let planes = r.image_planar();
    for c in 0..planes.len() {
        println!("channel {c}:");
        for yy in y.saturating_sub(2)..(y + 3).min(model[k].h) {
            let dec: Vec<String> = (x.saturating_sub(2)..(x + 3).min(model[k].w)).map(|xx| format!("{:8.5}", planes[c].buf()[yy * model[k].w + xx])).collect();
            let mo: Vec<String> = (x.saturating_sub(2)..(x + 3).min(model[k].w)).map(|xx| format!("{:8.5}", model[k].ch[c][yy * model[k].w + xx])).collect();
            println!("  y={yy}: dec [{}]  model [{}]", dec.join(" "), mo.join(" "));
        }
    }
    if std::env::var("C05_AT").is_ok() {
        // replay the compositor step by step and print the slot contents at the source position
        let mut slots: [Option<Img>; 4] = [None, None, None, None];
        let partial = compose_upto(p, &frames, &mut slots);
        for (i, s) in slots.iter().enumerate() {
            if let (Some(s), Ok(v)) = (s, std::env::var("C05_AT")) {
                let xy: Vec<usize> = v.split(',').filter_map(|t| t.parse().ok()).collect();
                if xy[0] < s.w && xy[1] < s.h {
                    println!("   model slot {i} ({}x{}) at {:?}: {:?}", s.w, s.h, xy, s.ch.iter().map(|c| c[xy[1] * s.w + xy[0]]).collect::<Vec<_>>());
                }
            }
        }
        let _ = partial;
    }
    for (i, f) in frames.iter().enumerate() {
        println!("frame {i}: {}x{} ch0 first row {:?}", f.w, f.h, &f.ch[0][..f.w.min(6)]);
        if let Ok(v) = std::env::var("C05_AT") {
            // C05_AT="x,y": every channel of every standalone frame at that position
            let xy: Vec<usize> = v.split(',').filter_map(|t| t.parse().ok()).collect();
            if xy.len() == 2 && xy[0] < f.w && xy[1] < f.h {
                let vals: Vec<f32> = f.ch.iter().map(|c| c[xy[1] * f.w + xy[0]]).collect();
                println!("   frame {i} at {:?}: {:?}", xy, vals);
            }
        }
    }
}
