//! Writer side of the entropy coder (prefix codes, hybrid integers, cluster maps, LZ77).
//! Written from the format as mirrored by `jxl-coding`'s parser; it never calls decoder code.
use crate::bits::BitWriter;
use crate::rng::Rng;
use serde::{Deserialize, Serialize};

#[derive(Clone, Debug, Serialize, Deserialize, PartialEq, Eq)]
pub struct IntConfig {
    pub split_exponent: u32,
    pub msb: u32,
    pub lsb: u32,
}

fn add_log2_ceil(x: u32) -> u32 {
    (x + 1).next_power_of_two().trailing_zeros()
}

impl IntConfig {
    pub fn random(rng: &mut Rng, log_alphabet_size: u32) -> Self {
        let max_e = log_alphabet_size.min(8);
        let split_exponent = match rng.below(6) {
            0 => 0,
            1 => 4,
            _ => rng.below(max_e as u64 + 1) as u32,
        };
        if split_exponent == log_alphabet_size {
            return Self { split_exponent, msb: 0, lsb: 0 };
        }
        let msb = rng.below(split_exponent as u64 + 1) as u32;
        let lsb = rng.below((split_exponent - msb) as u64 + 1) as u32;
        Self { split_exponent, msb, lsb }
    }

    pub fn write(&self, w: &mut BitWriter, log_alphabet_size: u32) {
        w.w(self.split_exponent as u64, add_log2_ceil(log_alphabet_size));
        if self.split_exponent != log_alphabet_size {
            w.w(self.msb as u64, add_log2_ceil(self.split_exponent));
            w.w(self.lsb as u64, add_log2_ceil(self.split_exponent - self.msb));
        }
    }

    /// Largest token any value in `0..=max_value` can map to.
    pub fn max_token(&self, max_value: u32) -> u32 {
        let split = 1u32 << self.split_exponent;
        if max_value < split {
            return max_value;
        }
        let n = 31 - max_value.leading_zeros();
        split + ((n - self.split_exponent + 1) << (self.msb + self.lsb)) - 1
    }

    /// value -> (token, number of extra bits, extra bits)
    pub fn encode(&self, v: u32) -> (u32, u32, u32) {
        let split = 1u32 << self.split_exponent;
        if v < split {
            return (v, 0, 0);
        }
        let n = 31 - v.leading_zeros();
        let m = v - (1 << n);
        let token = split
            + ((n - self.split_exponent) << (self.msb + self.lsb))
            + ((m >> (n - self.msb)) << self.lsb)
            + (m & ((1 << self.lsb) - 1));
        let nbits = n - self.msb - self.lsb;
        let bits = (m >> self.lsb) & (((1u64 << nbits) - 1) as u32);
        (token, nbits, bits)
    }
}

/// Complete prefix code over a subset of an alphabet. `lengths[sym] == 0` means unused.
#[derive(Clone, Debug, Serialize, Deserialize)]
pub struct PrefixCode {
    pub lengths: Vec<u8>,
    #[serde(skip)]
    codes: Vec<u16>,
    /// for a single-symbol code
    pub single: Option<u32>,
    /// header form knob: prefer the "one code-length symbol" trick for flat codes
    pub flat_trick: bool,
}

impl PrefixCode {
    pub fn from_lengths(lengths: Vec<u8>, flat_trick: bool) -> Self {
        let mut c = Self { lengths, codes: Vec::new(), single: None, flat_trick };
        c.rebuild();
        c
    }

    pub fn single_symbol(sym: u32) -> Self {
        let mut lengths = vec![0u8; sym as usize + 1];
        lengths[sym as usize] = 0;
        Self { lengths, codes: Vec::new(), single: Some(sym), flat_trick: false }
    }

    pub fn rebuild(&mut self) {
        if self.single.is_some() {
            return;
        }
        let mut codes = vec![0u16; self.lengths.len()];
        let mut code = 0u32;
        for len in 1..=15u8 {
            for (sym, &l) in self.lengths.iter().enumerate() {
                if l == len {
                    codes[sym] = code as u16;
                    code += 1;
                }
            }
            code <<= 1;
        }
        self.codes = codes;
    }

    /// Random complete code over `symbols` (distinct, non-empty), lengths ≤ 15.
    pub fn random(rng: &mut Rng, symbols: &[u32]) -> Self {
        assert!(!symbols.is_empty());
        if symbols.len() == 1 {
            return Self::single_symbol(symbols[0]);
        }
        let n = symbols.len();
        assert!(n <= 1 << 15);
        // leaves by depth, random splitting
        let mut depths: Vec<u8> = vec![1, 1];
        let flat = rng.chance(1, 3);
        while depths.len() < n {
            // pick a splittable leaf (depth < 15); flat: always the shallowest
            let idx = if flat {
                let mut best = 0;
                for (i, &d) in depths.iter().enumerate() {
                    if d < depths[best] {
                        best = i;
                    }
                }
                best
            } else {
                let mut tries = 0;
                loop {
                    let i = rng.below(depths.len() as u64) as usize;
                    if depths[i] < 15 {
                        break i;
                    }
                    tries += 1;
                    if tries > 64 {
                        break depths.iter().position(|&d| d < 15).unwrap();
                    }
                }
            };
            let d = depths[idx] + 1;
            depths[idx] = d;
            depths.push(d);
        }
        let mut order: Vec<usize> = (0..n).collect();
        rng.shuffle(&mut order);
        let max_sym = *symbols.iter().max().unwrap() as usize;
        let mut lengths = vec![0u8; max_sym + 1];
        for (k, &i) in order.iter().enumerate() {
            lengths[symbols[i] as usize] = depths[k];
        }
        Self::from_lengths(lengths, rng.chance(1, 2))
    }

    pub fn alphabet_size(&self) -> u32 {
        self.lengths.len() as u32
    }

    pub fn symbols(&self) -> Vec<u32> {
        if let Some(s) = self.single {
            return vec![s];
        }
        self.lengths.iter().enumerate().filter(|(_, l)| **l != 0).map(|(s, _)| s as u32).collect()
    }

    pub fn has(&self, sym: u32) -> bool {
        if let Some(s) = self.single {
            return s == sym;
        }
        self.lengths.get(sym as usize).copied().unwrap_or(0) != 0
    }

    pub fn write_count(&self, w: &mut BitWriter) {
        let count = self.alphabet_size();
        if count == 1 {
            w.bool(false);
        } else {
            w.bool(true);
            let c1 = count - 1;
            let n = 31 - c1.leading_zeros();
            w.w(n as u64, 4);
            w.w((c1 - (1 << n)) as u64, n);
        }
    }

    pub fn write_histogram(&self, w: &mut BitWriter) {
        if self.codes.is_empty() && self.single.is_none() {
            panic!("PrefixCode not built");
        }
        let alphabet_size = self.alphabet_size();
        if alphabet_size == 1 {
            return;
        }
        let alphabet_bits = alphabet_size.next_power_of_two().trailing_zeros();
        if let Some(sym) = self.single {
            w.w(1, 2); // hskip = 1: simple
            w.w(0, 2); // nsym - 1
            w.w(sym as u64, alphabet_bits);
            return;
        }
        let used: Vec<(u32, u8)> =
            self.lengths.iter().enumerate().filter(|(_, l)| **l != 0).map(|(s, l)| (s as u32, *l)).collect();
        // simple forms
        if used.len() <= 4 {
            let mut by_len = used.clone();
            by_len.sort_by_key(|&(s, l)| (l, s));
            let lens: Vec<u8> = by_len.iter().map(|x| x.1).collect();
            let ok = match lens.as_slice() {
                [1, 1] | [1, 2, 2] | [2, 2, 2, 2] | [1, 2, 3, 3] => true,
                _ => false,
            };
            if ok {
                w.w(1, 2);
                w.w(used.len() as u64 - 1, 2);
                for &(s, _) in &by_len {
                    w.w(s as u64, alphabet_bits);
                }
                if used.len() == 4 {
                    w.bool(lens == [1, 2, 3, 3]);
                }
                return;
            }
        }
        // complex
        const ORDER: [usize; 18] = [1, 2, 3, 4, 0, 5, 17, 6, 16, 7, 8, 9, 10, 11, 12, 13, 14, 15];
        let first_len = used[0].1;
        let all_flat = used.iter().all(|x| x.1 == first_len)
            && used.len() == self.lengths.len()
            && used.len() == 1usize << first_len;
        w.w(0, 2); // hskip = 0
        if all_flat && self.flat_trick {
            // only code-length symbol `first_len` has a nonzero code length -> zero-bit symbols
            for idx in ORDER {
                if idx == first_len as usize {
                    w.w(2, 2); // length 3 (any nonzero)
                } else {
                    w.w(0, 2);
                }
            }
            return;
        }
        // flat 4-bit code over code-length symbols 0..=15
        for idx in ORDER {
            if idx <= 15 {
                w.w(1, 2); // selector 1 -> length 4
            } else {
                w.w(0, 2);
            }
        }
        let mut acc = 0u32;
        for &l in &self.lengths {
            w.w_msb(l as u64, 4);
            if l != 0 {
                acc += 1 << (15 - l);
                if acc == 1 << 15 {
                    break;
                }
            }
        }
        assert_eq!(acc, 1 << 15, "incomplete prefix code");
    }

    pub fn write_symbol(&self, w: &mut BitWriter, sym: u32) {
        if let Some(s) = self.single {
            assert_eq!(s, sym, "symbol not in single-symbol code");
            return;
        }
        let len = self.lengths[sym as usize];
        assert!(len != 0, "symbol {sym} not in code");
        w.w_msb(self.codes[sym as usize] as u64, len as u32);
    }
}

#[derive(Clone, Debug, Serialize, Deserialize)]
pub enum ClusterMapForm {
    /// `simple` with the given nbits
    Simple(u32),
    /// entropy-coded, with or without move-to-front
    Coded { mtf: bool },
}

#[derive(Clone, Debug, Serialize, Deserialize)]
pub struct Lz77Spec {
    pub min_symbol: u32,
    pub min_length: u32,
    pub len_config: IntConfig,
    /// RLE-shaped: distance distribution is the single symbol 1 with split_exponent 0
    pub rle: bool,
}

/// A complete entropy-coded stream description (prefix codes only).
#[derive(Clone, Debug, Serialize, Deserialize)]
pub struct Coder {
    pub num_dist: u32,
    pub lz77: Option<Lz77Spec>,
    /// per context (incl. the LZ77 distance context at the end when LZ77 is on)
    pub cluster_map: Vec<u8>,
    pub map_form: ClusterMapForm,
    pub configs: Vec<IntConfig>,
    pub codes: Vec<PrefixCode>,
    /// largest value the data clusters can encode
    pub max_value: u32,
    /// `Some`: ANS instead of prefix codes (`codes` is then unused)
    #[serde(default)]
    pub ans: Option<AnsSpec>,
    /// tokens of the running ANS session (written by `end_session`)
    #[serde(skip)]
    pub pending: Pending,
}

/// One coded token waiting for the end of an ANS session.
#[derive(Clone, Debug)]
pub struct Tok {
    cluster: u8,
    token: u16,
    nbits: u8,
    bits: u32,
}

#[derive(Debug, Default)]
pub struct Pending(std::sync::Mutex<Vec<Tok>>);

impl Clone for Pending {
    fn clone(&self) -> Self {
        Pending(std::sync::Mutex::new(self.0.lock().unwrap().clone()))
    }
}

#[derive(Clone, Debug, Serialize, Deserialize)]
pub struct AnsSpec {
    /// 5..=8
    pub log_alpha: u32,
    /// one distribution per cluster
    pub dists: Vec<AnsDist>,
}

#[derive(Clone, Debug, Serialize, Deserialize)]
pub enum AnsForm {
    /// one symbol with probability 1
    Unary,
    /// two symbols
    Binary,
    /// symbols 0..n evenly
    Flat,
    /// log-count codes + mantissas; `omit` takes the remainder; zero runs as RLE when `rle`
    General { shift: u32, omit: usize, rle: bool },
}

#[derive(Clone, Debug, Serialize, Deserialize)]
pub struct AnsDist {
    /// 12-bit frequencies, one per symbol of the alphabet (sum 4096)
    pub dist: Vec<u16>,
    pub form: AnsForm,
}

fn write_u8(w: &mut BitWriter, v: u32) {
    if v == 0 {
        w.bool(false);
    } else {
        w.bool(true);
        let n = 31 - v.leading_zeros();
        w.w(n as u64, 3);
        w.w((v - (1 << n)) as u64, n);
    }
}

/// The fixed prefix code of the log-count alphabet (0..=13).
fn write_logcount(w: &mut BitWriter, code: u32) {
    match code {
        10 => w.w(0, 3),
        4 => { w.w(1, 3); w.bool(true) }
        0 => { w.w(1, 3); w.bool(false); w.bool(true) }
        11 => { w.w(1, 3); w.bool(false); w.bool(false); w.bool(true) }
        13 => { w.w(1, 3); w.bool(false); w.bool(false); w.bool(false); w.bool(true) }
        12 => { w.w(1, 3); w.bool(false); w.bool(false); w.bool(false); w.bool(false) }
        7 => w.w(2, 3),
        1 => { w.w(3, 3); w.bool(true) }
        3 => { w.w(3, 3); w.bool(false) }
        6 => w.w(4, 3),
        8 => w.w(5, 3),
        9 => w.w(6, 3),
        2 => { w.w(7, 3); w.bool(true) }
        5 => { w.w(7, 3); w.bool(false) }
        _ => unreachable!(),
    }
}

fn mantissa_bits(shift: u32, zeros: u32) -> u32 {
    (shift as i32 - ((12 - zeros as i32) >> 1)).clamp(0, zeros as i32) as u32
}

impl AnsDist {
    /// A random distribution giving every symbol of `symbols` (sorted, < 2^log_alpha) a non-zero
    /// frequency, in a randomly chosen header form that can represent it exactly.
    pub fn random(rng: &mut Rng, symbols: &[u32], log_alpha: u32) -> Self {
        let n = symbols.len();
        let alphabet = *symbols.last().unwrap() as usize + 1;
        assert!(alphabet <= 1 << log_alpha);
        if n == 1 {
            let mut dist = vec![0u16; alphabet];
            dist[symbols[0] as usize] = 4096;
            return Self { dist, form: AnsForm::Unary };
        }
        if n == 2 && rng.chance(1, 2) {
            let mut dist = vec![0u16; alphabet];
            let p = 1 + rng.below(4095) as u16;
            dist[symbols[0] as usize] = p;
            dist[symbols[1] as usize] = 4096 - p;
            return Self { dist, form: AnsForm::Binary };
        }
        let contiguous = symbols.iter().enumerate().all(|(i, &s)| s as usize == i);
        if contiguous && rng.chance(1, 4) {
            let base = 4096 / n;
            let left = 4096 % n;
            let dist = (0..n).map(|i| (base + (i < left) as usize) as u16).collect();
            return Self { dist, form: AnsForm::Flat };
        }
        // general form
        let shift = *rng.pick(&[0u32, 3, 6, 8, 10, 12, 12, 13, 13]);
        let alphabet = alphabet.max(3);
        let mut dist = vec![0u16; alphabet];
        let omit = symbols[rng.below(n as u64) as usize] as usize;
        // everybody else starts at 1; then random representable upgrades within the budget
        let mut acc = 0u32;
        for &s in symbols {
            if s as usize != omit {
                dist[s as usize] = 1;
                acc += 1;
            }
        }
        let skew = rng.below(3);
        for &s in symbols {
            let s = s as usize;
            if s == omit {
                continue;
            }
            let budget = 4095 - acc + 1; // this symbol may grow to `budget`
            if budget < 2 {
                continue;
            }
            let zmax = (31 - budget.leading_zeros()).min(10);
            let zeros = match skew {
                0 => rng.below(zmax as u64 + 1) as u32,
                1 => rng.below(zmax.min(4) as u64 + 1) as u32,
                _ => if rng.chance(1, 6) { zmax } else { rng.below(zmax.min(3) as u64 + 1) as u32 },
            };
            let bc = mantissa_bits(shift, zeros);
            let mut v = (1u32 << zeros) + ((rng.below(1 << bc) as u32) << (zeros - bc));
            while v > budget {
                v = 1 << zeros;
                if v > budget {
                    v = 1;
                }
            }
            acc = acc - 1 + v;
            dist[s] = v as u16;
        }
        dist[omit] = (4096 - acc) as u16;
        Self { dist, form: AnsForm::General { shift, omit, rle: rng.chance(1, 2) } }
    }

    pub fn write(&self, w: &mut BitWriter) {
        match &self.form {
            AnsForm::Unary => {
                w.bool(true);
                w.bool(false);
                write_u8(w, self.dist.iter().position(|&d| d == 4096).unwrap() as u32);
            }
            AnsForm::Binary => {
                w.bool(true);
                w.bool(true);
                let v: Vec<usize> = (0..self.dist.len()).filter(|&i| self.dist[i] != 0).collect();
                write_u8(w, v[0] as u32);
                write_u8(w, v[1] as u32);
                w.w(self.dist[v[0]] as u64, 12);
            }
            AnsForm::Flat => {
                w.bool(false);
                w.bool(true);
                write_u8(w, self.dist.len() as u32 - 1);
            }
            AnsForm::General { shift, omit, rle } => {
                w.bool(false);
                w.bool(false);
                let len = match *shift {
                    0 => 0,
                    1..=2 => 1,
                    3..=6 => 2,
                    _ => 3,
                };
                for _ in 0..len {
                    w.bool(true);
                }
                if len < 3 {
                    w.bool(false);
                }
                w.w((*shift + 1 - (1 << len)) as u64, len);
                let n = self.dist.len();
                write_u8(w, n as u32 - 3);
                let code_of = |i: usize| -> u32 {
                    if self.dist[i] == 0 { 0 } else { 32 - (self.dist[i] as u32).leading_zeros() }
                };
                let max_other = (0..n).filter(|&i| i != *omit).map(code_of).max().unwrap_or(0);
                let mut i = 0;
                while i < n {
                    if i == *omit {
                        write_logcount(w, (max_other + 1).min(12));
                        i += 1;
                        continue;
                    }
                    write_logcount(w, code_of(i));
                    if self.dist[i] == 0 && *rle {
                        // a run of further zeros after this explicit zero
                        let mut run = 0;
                        while i + 1 + run < n && i + 1 + run != *omit && self.dist[i + 1 + run] == 0 && run < 259 {
                            run += 1;
                        }
                        if run >= 4 {
                            write_logcount(w, 13);
                            write_u8(w, run as u32 - 4);
                            i += run;
                        }
                    }
                    i += 1;
                }
                for i in 0..n {
                    if i == *omit || self.dist[i] <= 1 {
                        continue;
                    }
                    let zeros = 31 - (self.dist[i] as u32).leading_zeros();
                    let bc = mantissa_bits(*shift, zeros);
                    let m = (self.dist[i] as u32 - (1 << zeros)) >> (zeros - bc);
                    debug_assert_eq!((1 << zeros) + (m << (zeros - bc)), self.dist[i] as u32, "frequency not representable");
                    w.w(m as u64, bc);
                }
            }
        }
    }

    /// symbol -> (frequency, slot index for each offset within the symbol), mirroring the
    /// decoder's alias-table construction.
    fn reverse_table(&self, log_alpha: u32) -> Vec<Vec<u16>> {
        let table_size = 1usize << log_alpha;
        let log_bucket = 12 - log_alpha;
        let bucket_size = 1u32 << log_bucket;
        let mut dist = vec![0u32; table_size];
        for (i, &d) in self.dist.iter().enumerate() {
            dist[i] = d as u32;
        }
        let alphabet_size = self.dist.len();
        let mut rev: Vec<Vec<u16>> = dist.iter().map(|&d| vec![0u16; d as usize]).collect();
        if let Some(single) = dist.iter().position(|&d| d == 4096) {
            for idx in 0..4096u32 {
                rev[single][idx as usize] = idx as u16;
            }
            return rev;
        }
        #[derive(Clone)]
        struct B {
            dist: u32,
            alias_symbol: u32,
            alias_offset: u32,
            alias_cutoff: u32,
        }
        let mut buckets: Vec<B> = dist.iter().enumerate().map(|(i, &d)| B { dist: d, alias_symbol: if i < alphabet_size { i as u32 } else { 0 }, alias_offset: 0, alias_cutoff: d }).collect();
        let mut underfull = Vec::new();
        let mut overfull = Vec::new();
        for (idx, b) in buckets.iter().enumerate() {
            if b.dist < bucket_size {
                underfull.push(idx);
            } else if b.dist > bucket_size {
                overfull.push(idx);
            }
        }
        while let (Some(o), Some(u)) = (overfull.pop(), underfull.pop()) {
            let by = bucket_size - buckets[u].alias_cutoff;
            buckets[o].alias_cutoff -= by;
            buckets[u].alias_symbol = o as u32;
            buckets[u].alias_offset = buckets[o].alias_cutoff;
            if buckets[o].alias_cutoff < bucket_size {
                underfull.push(o);
            } else if buckets[o].alias_cutoff > bucket_size {
                overfull.push(o);
            }
        }
        for idx in 0..4096u32 {
            let i = (idx >> log_bucket) as usize;
            let pos = idx & (bucket_size - 1);
            let b = &buckets[i];
            let (symbol, offset) = if b.alias_cutoff == bucket_size {
                (i, pos)
            } else if pos >= b.alias_cutoff {
                (b.alias_symbol as usize, b.alias_offset - b.alias_cutoff + pos)
            } else {
                (i, pos)
            };
            rev[symbol][offset as usize] = idx as u16;
        }
        rev
    }
}

impl Coder {
    /// Coder whose data clusters all share one config and one code able to encode `0..=max_value`.
    pub fn random(rng: &mut Rng, num_dist: u32, max_value: u32, allow_lz77: bool) -> Self {
        let max_value = max_value.min((1 << 24) - 1);
        let config = loop {
            let c = IntConfig::random(rng, 15);
            let tok = c.max_token(max_value);
            if tok < 200 {
                break c;
            }
        };
        let max_tok = config.max_token(max_value);
        let lz77 = if allow_lz77 && rng.chance(1, 4) {
            let rle = rng.chance(1, 2);
            Some(Lz77Spec {
                min_symbol: 224,
                min_length: *rng.pick(&[3u32, 4, 5, 7, 9]),
                len_config: IntConfig { split_exponent: 0, msb: 0, lsb: 0 },
                rle,
            })
        } else {
            None
        };
        // data token set
        let mut toks: Vec<u32> = (0..=max_tok).collect();
        if let Some(lz) = &lz77 {
            // length tokens: lengths min_length + (0..=15) with split_exponent 0 -> tokens 0..=4
            for t in 0..=4 {
                toks.push(lz.min_symbol + t);
            }
        }
        let code = PrefixCode::random(rng, &toks);

        let total_dist = num_dist + lz77.is_some() as u32;
        // clusters: data contexts share `want` clusters (no holes by construction); the LZ77
        // distance context, if any, gets a cluster of its own at the end.
        let want = match rng.below(4) {
            0 => 1,
            1 => 2,
            _ => 1 + rng.below(num_dist.min(7) as u64) as u32,
        }
        .clamp(1, num_dist.min(7));
        let mut cluster_map: Vec<u8> =
            (0..num_dist).map(|i| if i < want { i as u8 } else { rng.below(want as u64) as u8 }).collect();
        rng.shuffle(&mut cluster_map);
        let mut num_clusters = want;
        if lz77.is_some() {
            cluster_map.push(want as u8);
            num_clusters += 1;
        }
        let map_form = if total_dist == 1 {
            ClusterMapForm::Simple(0)
        } else {
            let nbits_needed = if num_clusters <= 1 { 0 } else { 32 - (num_clusters - 1).leading_zeros() };
            if rng.chance(2, 3) {
                ClusterMapForm::Simple(rng.usize_in(nbits_needed as usize, 3) as u32)
            } else {
                ClusterMapForm::Coded { mtf: rng.chance(1, 2) }
            }
        };
        let mut configs = vec![config.clone(); num_clusters as usize];
        let mut codes = vec![code.clone(); num_clusters as usize];
        if let Some(lz) = &lz77 {
            let dc = *cluster_map.last().unwrap() as usize;
            if lz.rle {
                configs[dc] = IntConfig { split_exponent: 0, msb: 0, lsb: 0 };
                let mut c = PrefixCode::single_symbol(1);
                c.lengths = vec![0, 0];
                codes[dc] = c;
            } else {
                // distances: values 0..=255
                let dconf = IntConfig { split_exponent: 4, msb: 1, lsb: 0 };
                let mt = dconf.max_token(255);
                let toks: Vec<u32> = (0..=mt).collect();
                configs[dc] = dconf;
                codes[dc] = PrefixCode::random(rng, &toks);
            }
        }
        let mut coder = Self { num_dist, lz77, cluster_map, map_form, configs, codes, max_value, ans: None, pending: Pending::default() };
        coder.maybe_ans(&toks);
        coder
    }

    /// Switches to ANS when the tokens and integer configs fit an ANS alphabet. The choice and the
    /// distributions are drawn from a generator seeded by the coder itself, so that the caller's
    /// random stream is what it was before ANS existed.
    fn maybe_ans(&mut self, data_tokens: &[u32]) {
        let mut h = crate::harness::Fnv::new();
        h.write(&self.codes[0].lengths);
        h.write(&[self.configs[0].split_exponent as u8, self.configs[0].msb as u8, self.configs[0].lsb as u8, self.num_dist as u8]);
        let mut rng = Rng::new(h.finish());
        if !rng.chance(1, 2) {
            return;
        }
        let max_tok = *data_tokens.iter().max().unwrap();
        let Some(log_alpha) = (5..=8u32).find(|&l| {
            max_tok < (1 << l) && self.configs.iter().all(|c| c.split_exponent < l || (c.split_exponent == l && c.msb == 0 && c.lsb == 0))
        }) else {
            return;
        };
        let log_alpha = if rng.chance(1, 3) { rng.range(log_alpha as i64, 8) as u32 } else { log_alpha };
        if self.configs.iter().any(|c| c.split_exponent == log_alpha && (c.msb != 0 || c.lsb != 0)) {
            return;
        }
        let mut sorted: Vec<u32> = data_tokens.to_vec();
        sorted.sort();
        sorted.dedup();
        // all data clusters share one distribution (the writer does not know which leaf a sample hits)
        let data = AnsDist::random(&mut rng, &sorted, log_alpha);
        let mut dists = vec![data; self.configs.len()];
        if let Some(lz) = &self.lz77 {
            let dc = *self.cluster_map.last().unwrap() as usize;
            if lz.rle {
                dists[dc] = AnsDist::random(&mut rng, &[1], log_alpha);
            } else {
                let mt = self.configs[dc].max_token(255);
                let toks: Vec<u32> = (0..=mt).collect();
                dists[dc] = AnsDist::random(&mut rng, &toks, log_alpha);
            }
        }
        self.ans = Some(AnsSpec { log_alpha, dists });
    }

    /// The trivial coder of the minimal recipe: single cluster, every value is token 0.
    pub fn all_zero(num_dist: u32) -> Self {
        Self {
            num_dist,
            lz77: None,
            cluster_map: vec![0; num_dist as usize],
            map_form: ClusterMapForm::Simple(0),
            configs: vec![IntConfig { split_exponent: 0, msb: 0, lsb: 0 }],
            codes: vec![PrefixCode::single_symbol(0)],
            max_value: 0,
            ans: None,
            pending: Pending::default(),
        }
    }

    pub fn rebuild(&mut self) {
        for c in &mut self.codes {
            c.rebuild();
        }
    }

    pub fn write_header(&self, w: &mut BitWriter) {
        // Lz77
        if let Some(lz) = &self.lz77 {
            w.bool(true);
            w.u32([(224, 0), (512, 0), (4096, 0), (8, 15)], lz.min_symbol, None);
            w.u32([(3, 0), (4, 0), (5, 2), (9, 8)], lz.min_length, None);
            lz.len_config.write(w, 8);
        } else {
            w.bool(false);
        }
        let total = self.cluster_map.len() as u32;
        if total > 1 {
            match &self.map_form {
                ClusterMapForm::Simple(nbits) => {
                    w.bool(true);
                    w.w(*nbits as u64, 2);
                    for &c in &self.cluster_map {
                        w.w(c as u64, *nbits);
                    }
                }
                ClusterMapForm::Coded { mtf } => {
                    w.bool(false);
                    w.bool(*mtf);
                    let values: Vec<u32> = if *mtf {
                        let mut table: Vec<u8> = (0..=255u8).collect();
                        self.cluster_map
                            .iter()
                            .map(|&c| {
                                let idx = table.iter().position(|&t| t == c).unwrap();
                                table.remove(idx);
                                table.insert(0, c);
                                idx as u32
                            })
                            .collect()
                    } else {
                        self.cluster_map.iter().map(|&c| c as u32).collect()
                    };
                    // nested decoder: one distribution, no LZ77
                    w.bool(false); // lz77 disabled
                    // num_dist == 1: no cluster map
                    w.bool(true); // prefix codes
                    let conf = IntConfig { split_exponent: 3, msb: 0, lsb: 0 };
                    conf.write(w, 15);
                    let maxv = *values.iter().max().unwrap();
                    let mt = conf.max_token(maxv);
                    let mut lens = vec![0u8; (mt + 1).next_power_of_two().max(2) as usize];
                    let l = lens.len().trailing_zeros() as u8;
                    for x in lens.iter_mut() {
                        *x = l;
                    }
                    let code = PrefixCode::from_lengths(lens, false);
                    code.write_count(w);
                    code.write_histogram(w);
                    for v in values {
                        let (t, nb, b) = conf.encode(v);
                        code.write_symbol(w, t);
                        w.w(b as u64, nb);
                    }
                }
            }
        }
        if let Some(ans) = &self.ans {
            w.bool(false); // ANS
            w.w((ans.log_alpha - 5) as u64, 2);
            for c in &self.configs {
                c.write(w, ans.log_alpha);
            }
            for d in &ans.dists {
                d.write(w);
            }
            return;
        }
        w.bool(true); // use_prefix_code
        for c in &self.configs {
            c.write(w, 15);
        }
        for c in &self.codes {
            c.write_count(w);
        }
        for c in &self.codes {
            c.write_histogram(w);
        }
    }

    #[inline]
    pub fn write_value(&self, w: &mut BitWriter, ctx: u32, v: u32) {
        let cl = self.cluster_map[ctx as usize] as usize;
        let (t, nb, b) = self.configs[cl].encode(v);
        if self.ans.is_some() {
            self.pending.0.lock().unwrap().push(Tok { cluster: cl as u8, token: t as u16, nbits: nb as u8, bits: b });
            return;
        }
        self.codes[cl].write_symbol(w, t);
        w.w(b as u64, nb);
    }

    /// Ends a coded run (`Decoder::begin` .. `finalize` on the decoder side). Prefix codes: nothing
    /// to do. ANS: the state threads backwards through the tokens, so the run is emitted here —
    /// initial state (32 bits), then per token the 16 refill bits (when the decoder's state
    /// underflows after that token) and its raw bits.
    pub fn end_session(&self, w: &mut BitWriter) {
        let Some(ans) = &self.ans else { return };
        let toks = std::mem::take(&mut *self.pending.0.lock().unwrap());
        let rev: Vec<Vec<Vec<u16>>> = ans.dists.iter().map(|d| d.reverse_table(ans.log_alpha)).collect();
        let mut state: u32 = 0x130000;
        let mut refill: Vec<Option<u16>> = vec![None; toks.len()];
        for (i, t) in toks.iter().enumerate().rev() {
            let table = &rev[t.cluster as usize][t.token as usize];
            let f = table.len() as u32;
            assert!(f > 0, "token {} has zero frequency in its ANS distribution", t.token);
            if (state >> 20) >= f {
                refill[i] = Some((state & 0xffff) as u16);
                state >>= 16;
            }
            let idx = table[(state % f) as usize] as u32;
            state = ((state / f) << 12) | idx;
        }
        w.w(state as u64, 32);
        for (t, r) in toks.iter().zip(&refill) {
            if let Some(bits) = r {
                w.w(*bits as u64, 16);
            }
            w.w(t.bits as u64, t.nbits as u32);
        }
    }

    /// Writes an LZ77 copy command: `len` symbols from `distance_value` (raw distance symbol).
    pub fn write_copy(&self, w: &mut BitWriter, ctx: u32, len: u32, distance_value: u32) {
        let lz = self.lz77.as_ref().unwrap();
        let cl = self.cluster_map[ctx as usize] as usize;
        let (t, nb, b) = lz.len_config.encode(len - lz.min_length);
        let dc = *self.cluster_map.last().unwrap() as usize;
        if self.ans.is_some() {
            let mut p = self.pending.0.lock().unwrap();
            p.push(Tok { cluster: cl as u8, token: (lz.min_symbol + t) as u16, nbits: nb as u8, bits: b });
            // the distance symbol is read in either mode (RLE: the one-symbol distribution, no bits)
            let (t, nb, b) = if lz.rle { (1, 0, 0) } else { self.configs[dc].encode(distance_value) };
            p.push(Tok { cluster: dc as u8, token: t as u16, nbits: nb as u8, bits: b });
            return;
        }
        self.codes[cl].write_symbol(w, lz.min_symbol + t);
        w.w(b as u64, nb);
        if !lz.rle {
            let (t, nb, b) = self.configs[dc].encode(distance_value);
            self.codes[dc].write_symbol(w, t);
            w.w(b as u64, nb);
        }
        // rle: the distance is the zero-bit symbol 1
    }
}
