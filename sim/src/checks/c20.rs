//! C20 — concurrent renders of shared frames run once at a time, agree, and never deadlock.
use crate::checks::common::*;
use crate::harness::{Stats, Tier, Violation};
use serde::{Deserialize, Serialize};

#[derive(Clone, Debug, Serialize, Deserialize)]
pub enum Fault {
    None,
    /// arm fail-from-k (per-mille of the allocations of a sequential render pass) before the threads start
    AllocFailFrom(u32),
    /// the stream has a bit flip inside a section
    CorruptGroup,
}

#[derive(Clone, Debug, Serialize, Deserialize)]
pub struct Scenario {
    pub case: StreamCase,
    pub family: String,
    /// per caller thread: keyframe indices to render, in order
    pub threads: Vec<Vec<usize>>,
    pub shuttle_pool: bool,
    /// `Some(n)`: rayon-like simulated pool with n workers and one queue (see `pool::sched::BoundedPool`)
    #[serde(default)]
    pub bounded_workers: Option<usize>,
    pub fault: Fault,
    #[cfg(feature = "sched")]
    pub iterations: Vec<crate::checks::shuttle_rt::IterSpec>,
    #[cfg(not(feature = "sched"))]
    pub iterations: Vec<serde_json::Value>,
}

pub fn digest(sc: &Scenario) -> u64 {
    let mut h = crate::harness::Fnv::new();
    h.write(&sc.case.bytes);
    h.write(format!("{:?}{:?}{:?}{}{:?}", sc.threads, sc.fault, sc.iterations, sc.shuttle_pool, sc.bounded_workers).as_bytes());
    h.finish()
}

#[cfg(not(feature = "sched"))]
pub fn generate(_seed: u64, _tier: Tier) -> Scenario {
    panic!("c20 needs the sched build")
}
#[cfg(not(feature = "sched"))]
pub fn execute(_seed: u64, _sc: &Scenario, _stats: &mut Stats) -> Result<(), Violation> {
    panic!("c20 needs the sched build")
}
#[cfg(not(feature = "sched"))]
pub fn minimise(sc: &Scenario, _still: &dyn Fn(&Scenario) -> bool) -> Scenario {
    sc.clone()
}

#[cfg(feature = "sched")]
pub use imp::*;

#[cfg(feature = "sched")]
mod imp {
    use super::*;
    use crate::checks::shuttle_rt::*;
    use crate::jxlgen::random::{GenConfig, random_frame, random_program};
    use crate::jxlgen::*;
    use crate::observe::RenderObs;
    use crate::pool::sched::{BoundedGuard, BoundedPool, ShuttlePool};
    use crate::rng::{Rng, derive};
    use crate::simio::{ChunkSchedule, StorageFault};
    use jxl_oxide::{AllocTracker, JxlImage, JxlThreadPool};
    use std::sync::{Arc, Mutex};

    /// Directed family: the evicted base. R (zero-duration, saved to slot s), K1 (keyframe, blends
    /// over s, not saved there), K2 (keyframe, blends over s AND is saved to s), K3 last.
    fn evicted_base_program(rng: &mut Rng) -> Program {
        let cfg = GenConfig { max_dim: 24, max_frames: 1, min_frames: 1, max_pixels: 24 * 24, crops: false, upsampling: false, passes: false, noise: false, transforms: false, ..GenConfig::small() };
        let mut prog = random_program(rng, &cfg);
        prog.animation = Some(AnimSpec { tps_num: 100, tps_den: 1, loops: 0, timecodes: false });
        let slot = rng.range(1, 3) as u32;
        let mk = |rng: &mut Rng, prog: &Program, kind: FrameKind, duration: u32, save: u32, mode: BlendMode, src: u32, last: bool| {
            let mut f = random_frame(rng, &cfg, prog, last);
            f.kind = kind;
            f.crop = None;
            f.duration = duration;
            f.save_as_reference = save;
            f.blend = BlendSpec { mode, alpha_channel: f.blend.alpha_channel, clamp: false, source: src };
            for b in &mut f.ec_blend {
                b.source = src;
            }
            f.is_last = last;
            f
        };
        let blend_modes = if prog.extra.is_empty() || prog.extra.iter().any(|e| matches!(e.kind, EcKind::Alpha { .. })) { vec![BlendMode::Add, BlendMode::Blend, BlendMode::Mul] } else { vec![BlendMode::Add, BlendMode::Mul] };
        let m = |rng: &mut Rng| *rng.pick(&blend_modes);
        let r_kind = if rng.chance(1, 2) { FrameKind::ReferenceOnly } else { FrameKind::Regular };
        let r = mk(rng, &prog, r_kind, 0, slot, BlendMode::Replace, 0, false);
        let mode1 = m(rng);
        let k1 = mk(rng, &prog, FrameKind::Regular, 5, 0, mode1, slot, false);
        let mode2 = m(rng);
        let k2 = mk(rng, &prog, FrameKind::Regular, 7, slot, mode2, slot, false);
        let mode3 = m(rng);
        let k3 = mk(rng, &prog, FrameKind::Regular, 3, 0, mode3, slot, true);
        prog.frames = vec![r, k1, k2, k3];
        prog
    }

    /// Directed family: a chain of zero-duration layers into one slot, then the keyframe.
    fn chain_program(rng: &mut Rng) -> Program {
        let cfg = GenConfig { max_dim: 20, max_frames: 1, min_frames: 1, max_pixels: 20 * 20, crops: false, upsampling: false, passes: false, noise: false, transforms: false, ..GenConfig::small() };
        let mut prog = random_program(rng, &cfg);
        let n = rng.usize_in(3, 5);
        let slot = rng.below(4) as u32;
        let mut frames = Vec::new();
        for i in 0..n {
            let last = i + 1 == n;
            let mut f = random_frame(rng, &cfg, &prog, last);
            f.kind = FrameKind::Regular;
            f.crop = None;
            f.duration = 0;
            f.save_as_reference = if last { 0 } else { slot };
            f.blend.source = slot;
            if i == 0 {
                f.blend.mode = BlendMode::Replace;
            } else if f.blend.mode == BlendMode::Replace {
                f.blend.mode = BlendMode::Add;
            }
            for b in &mut f.ec_blend {
                b.source = slot;
            }
            f.is_last = last;
            frames.push(f);
        }
        prog.animation = None;
        prog.frames = frames;
        prog
    }

    pub fn generate(seed: u64, tier: Tier) -> Scenario {
        let mut rng = Rng::new(derive(seed, 20, 0));
        let (prog, family) = match rng.below(4) {
            0 => (evicted_base_program(&mut rng), "evicted_base"),
            1 => (chain_program(&mut rng), "chain"),
            _ => {
                let cfg = GenConfig { max_dim: 32, max_frames: 5, min_frames: 2, max_pixels: 32 * 32, vardct: rng.chance(1, 4), ..GenConfig::small() }.swarm(&mut rng);
                (random_program(&mut rng, &cfg), "swarm")
            }
        };
        let (mut bytes, map) = prog.encode().expect("encode");
        let nkey = prog.frames.iter().filter(|f| Program::frame_is_keyframe(f)).count().max(1);
        let fault = match rng.below(6) {
            0 => Fault::AllocFailFrom(rng.below(1001) as u32),
            1 => {
                let len = bytes.len();
                if len > 120 {
                    let off = rng.usize_in(len / 2, len - 1);
                    StorageFault::BitFlip { offset: off, bit: rng.below(8) as u8 }.apply(&mut bytes);
                }
                Fault::CorruptGroup
            }
            _ => Fault::None,
        };
        let nthreads = rng.usize_in(2, 3);
        let same_keyframe = rng.chance(1, 3);
        let k0 = rng.below(nkey as u64) as usize;
        let threads: Vec<Vec<usize>> = (0..nthreads)
            .map(|t| {
                if family == "evicted_base" && nkey >= 3 && rng.chance(2, 3) {
                    // A renders K1 while B renders K2 (keyframe indices 0 and 1)
                    vec![t % 2]
                } else if same_keyframe {
                    vec![k0; rng.usize_in(1, 2)]
                } else {
                    (0..rng.usize_in(1, 3)).map(|_| rng.below(nkey as u64) as usize).collect()
                }
            })
            .collect();
        let n_iter = if tier == Tier::Quick { 10 } else { 60 };
        let iterations = (0..n_iter)
            .map(|i| IterSpec { kind: if i % 3 == 2 { SchedKind::Pct(rng.usize_in(2, 3)) } else { SchedKind::Random }, seed: rng.next_u64() })
            .collect();
        let case = StreamCase {
            structural: map.structural_offsets(),
            headers: vec![],
            container: false,
            aux_after_codestream: false,
            brob_after_codestream: false,
            shape: format!("{family}-{}", program_shape(&prog)),
            source: "jxlgen".into(),
            has_vardct: prog.frames.iter().any(|f| f.vardct.is_some()),
            program: serde_json::to_value(&prog).ok(),
            bytes,
        };
        let shuttle_pool = rng.chance(1, 2);
        let bounded_workers = (shuttle_pool && rng.chance(1, 2)).then(|| rng.usize_in(1, 3));
        Scenario { case, family: family.into(), threads, shuttle_pool, bounded_workers, fault, iterations }
    }

    fn viol(seed: u64, sc: &Scenario, class: String, detail: String) -> Violation {
    let class = sc.case.tag(class);
        Violation { property: "C20".into(), check: "c20".into(), class, detail, seed, scenario: serde_json::to_value(sc).unwrap() }
    }

    fn failure_to_violation(seed: u64, sc: &Scenario, f: RunFailure, ctx: &str) -> Violation {
        match f {
            RunFailure::Deadlock(m) => viol(seed, sc, "deadlock".into(), format!("{ctx}: {m}")),
            RunFailure::StepBound(m) => viol(seed, sc, "no_progress_within_step_bound".into(), format!("{ctx}: {m}")),
            RunFailure::Panic(loc, m) => {
                if crate::harness::is_decoder_location(&loc) && !loc.contains("shuttle") {
                    viol(seed, sc, crate::checks::panic_class(&loc, &m), format!("{ctx}: decoder panicked at {loc}: {m}"))
                } else {
                    panic!("harness/shuttle panic at {loc}: {m}")
                }
            }
        }
    }

    pub fn execute(seed: u64, sc: &Scenario, stats: &mut Stats) -> Result<(), Violation> {
        stats.evaluations += 1;
        let bytes = Arc::new(sc.case.bytes.clone());
        // ---- sequential reference under the scheduler (single task): digests per keyframe and
        // the number of tracked allocations of a full sequential render pass
        let reference: Shared<Option<(Vec<RenderObs>, usize, usize)>> = Arc::new(Mutex::new(None));
        {
            let bytes = bytes.clone();
            let reference = reference.clone();
            let it = IterSpec { kind: SchedKind::Random, seed: 1 };
            crate::harness::heartbeat("c20-reference");
            let r = run_once(&it, move || {
                let tracker = AllocTracker::with_limit(1 << 31);
                let img = match load_chunked(&bytes, &ChunkSchedule::whole(bytes.len()), Some(tracker.clone()), JxlThreadPool::none()) {
                    Ok(i) => i,
                    Err(_) => return,
                };
                let before = tracker.verif_allocs();
                let obs: Vec<RenderObs> = (0..img.num_loaded_keyframes()).map(|k| RenderObs::from_result(&img.render_frame(k))).collect();
                let after = tracker.verif_allocs();
                *reference.lock().unwrap() = Some((obs, before, after - before));
            });
            if let Err(f) = r {
                return Err(failure_to_violation(seed, sc, f, "sequential reference"));
            }
        }
        let Some((ref_obs, allocs_before, render_allocs)) = reference.lock().unwrap().take() else {
            stats.generator_rejects += 1;
            return Ok(());
        };
        let ref_obs = Arc::new(ref_obs);
        if ref_obs.is_empty() {
            stats.generator_rejects += 1;
            return Ok(());
        }
        let injected = !matches!(sc.fault, Fault::None);
        if !injected && ref_obs.iter().any(|r| !r.is_ok()) {
            stats.generator_rejects += 1;
            return Ok(());
        }

        // the known lost hand-off (F5) is reported after all iterations, so that a different
        // violation in a later iteration is not hidden behind it
        let mut deferred: Option<Violation> = None;
        for it in &sc.iterations {
            crate::harness::heartbeat("c20-iteration");
            probe_reset();
            let results: Shared<Vec<(usize, usize, RenderObs)>> = Arc::new(Mutex::new(Vec::new()));
            let run = {
                let bytes = bytes.clone();
                let results = results.clone();
                let threads = sc.threads.clone();
                let shuttle_pool = sc.shuttle_pool;
                let bounded = sc.bounded_workers;
                let fault = sc.fault.clone();
                run_once(it, move || {
                    let tracker = AllocTracker::with_limit(1 << 31);
                    let spool = (shuttle_pool && bounded.is_none()).then(|| ShuttlePool::new(2));
                    let bpool = bounded.filter(|_| shuttle_pool).map(BoundedPool::new);
                    let _bguard = bpool.clone().map(BoundedGuard);
                    let pool = match (&spool, &bpool) {
                        (Some(p), _) => JxlThreadPool::verif(p.clone() as Arc<dyn jxl_threadpool::verif::VerifPool>),
                        (_, Some(b)) => JxlThreadPool::verif(b.clone() as Arc<dyn jxl_threadpool::verif::VerifPool>),
                        _ => JxlThreadPool::none(),
                    };
                    let img = match load_chunked(&bytes, &ChunkSchedule::whole(bytes.len()), Some(tracker.clone()), pool) {
                        Ok(i) => Arc::new(i),
                        Err(_) => return,
                    };
                    if let Fault::AllocFailFrom(pm) = fault {
                        let k = tracker.verif_allocs() + (render_allocs as u64 * pm as u64 / 1000) as usize;
                        tracker.verif_fail_from(k);
                    }
                    let handles: Vec<_> = threads
                        .iter()
                        .enumerate()
                        .map(|(t, ks)| {
                            let img = img.clone();
                            let ks = ks.clone();
                            let results = results.clone();
                            shuttle::thread::Builder::new()
                                .stack_size(8 << 20)
                                .spawn(move || {
                                    for k in ks {
                                        let k = k.min(img.num_loaded_keyframes().saturating_sub(1));
                                        let obs = RenderObs::from_result(&img.render_frame(k));
                                        results.lock().unwrap().push((t, k, obs));
                                    }
                                })
                                .expect("spawn")
                        })
                        .collect();
                    for h in handles {
                        let _ = h.join();
                    }
                    if let Some(p) = &spool {
                        p.join_detached();
                    }
                    if let Some(b) = &bpool {
                        b.join_detached();
                    }
                    drop(img);
                })
            };
            let probe = probe_take();
            stats.steps += probe.states.len() as u64;
            for s in &probe.states {
                stats.states.insert(*s);
            }
            let _ = allocs_before;
            if let Err(f) = run {
                return Err(failure_to_violation(seed, sc, f, &format!("{:?} iteration seed {}", it.kind, it.seed)));
            }
            let results = std::mem::take(&mut *results.lock().unwrap());
            let expected: usize = sc.threads.iter().map(|t| t.len()).sum();
            if results.len() != expected {
                return Err(viol(seed, sc, "caller_did_not_return".into(), format!("{} of {expected} render calls returned", results.len())));
            }
            if let Some((frame, kind)) = probe.overlap {
                let mech = if probe.resets_of_rendering > 0 { "after_reset_of_rendering_frame" } else { "no_reset" };
                let v = viol(seed, sc, format!("concurrent_execution_of_one_frame:{mech}"), format!("two {} executions of frame {frame} were in flight at once ({} reset() calls overwrote a Rendering marker; scheduler {:?} seed {})", if kind == 0 { "render" } else { "composition" }, probe.resets_of_rendering, it.kind, it.seed));
                if probe.resets_of_rendering > 0 {
                    if deferred.is_none() {
                        deferred = Some(v);
                    }
                    continue;
                }
                return Err(v);
            }
            let mut sched_hash = crate::harness::Fnv::new();
            for (t, k, obs) in &results {
                sched_hash.write_u64(*t as u64 * 131 + *k as u64);
                match (obs, &ref_obs[*k]) {
                    (RenderObs::Err(c), _) if !injected => {
                        let mech = if probe.resets_of_finished > 0 { "after_reset_of_finished_frame" } else { "no_reset" };
                        let mech = if probe.resets_of_finished + probe.resets_of_rendering > 0 { "after_reset_of_finished_frame" } else { mech };
                        if probe.resets_of_finished + probe.resets_of_rendering > 0 && matches!(c, crate::harness::ErrClass::NeedMoreData | crate::harness::ErrClass::FailedReference) {
                            if deferred.is_none() {
                                deferred = Some(viol(seed, sc, format!("spurious_error:{c:?}:{mech}"), format!("caller {t} got Err({c:?}) for keyframe {k} with no fault injected; the sequential render succeeds ({} finished renders were discarded by reset() during the run; scheduler {:?} seed {})", probe.resets_of_finished, it.kind, it.seed)));
                            }
                            continue;
                        }
                        return Err(viol(seed, sc, format!("spurious_error:{c:?}:{mech}"), format!("caller {t} got Err({c:?}) for keyframe {k} with no fault injected; the sequential render succeeds ({} finished renders were discarded by reset() during the run)", probe.resets_of_finished)));
                    }
                    (RenderObs::Err(_), _) => stats.probe("err_with_fault"),
                    (a @ RenderObs::Ok { .. }, r @ RenderObs::Ok { .. }) => {
                        if let Some(d) = r.diff(a) {
                            return Err(viol(seed, sc, "differs_from_sequential".into(), format!("caller {t}, keyframe {k}: {d}")));
                        }
                    }
                    (RenderObs::Ok { .. }, RenderObs::Err(_)) => {
                        // only possible with the alloc fault (the sequential reference has no fault armed)
                        if matches!(sc.fault, Fault::CorruptGroup) {
                            return Err(viol(seed, sc, "verdict_differs_from_sequential".into(), format!("caller {t}: keyframe {k} renders concurrently but fails sequentially")));
                        }
                    }
                }
            }
            // order in which callers finished = coarse schedule signature
            stats.schedules.insert(sched_hash.finish() ^ it.seed);
            stats.fault(match sc.fault {
                Fault::None => "none",
                Fault::AllocFailFrom(_) => "alloc_fail_from_k",
                Fault::CorruptGroup => "corrupt_group",
            });
            if probe.executions.values().any(|&v| v > 1) {
                stats.probe("frame_rendered_more_than_once_sequentially");
            }
            stats.distinct_sig(&[&sc.family, &sc.threads.len(), &sc.shuttle_pool, &format!("{:?}", sc.fault).chars().take(5).collect::<String>(), &it.kind, &(sched_hash.finish() % 64)]);
        }
        if let Some(v) = deferred {
            return Err(v);
        }
        stats.sample(serde_json::json!({
            "family": sc.family, "shape": sc.case.shape, "threads": sc.threads, "shuttle_pool": sc.shuttle_pool, "fault": format!("{:?}", sc.fault),
            "iterations": sc.iterations.len(), "keyframes": ref_obs.len(),
        }));
        Ok(())
    }

    pub fn minimise(sc: &Scenario, still: &dyn Fn(&Scenario) -> bool) -> Scenario {
        let mut best = sc.clone();
        for i in 0..best.iterations.len() {
            let mut c = best.clone();
            c.iterations = vec![best.iterations[i].clone()];
            if still(&c) {
                best = c;
                break;
            }
        }
        if best.shuttle_pool {
            let mut c = best.clone();
            c.shuttle_pool = false;
            if still(&c) {
                best = c;
            }
        }
        while best.threads.len() > 2 {
            let mut c = best.clone();
            c.threads.pop();
            if still(&c) {
                best = c;
            } else {
                break;
            }
        }
        for t in 0..best.threads.len() {
            while best.threads[t].len() > 1 {
                let mut c = best.clone();
                c.threads[t].pop();
                if still(&c) {
                    best = c;
                } else {
                    break;
                }
            }
        }
        best
    }
}
