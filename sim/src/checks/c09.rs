//! C09 — feeding the stream in any chunks gives the same image as one buffer.
use crate::checks::common::*;
use crate::harness::{Stats, Tier, Violation};
use crate::jxlgen::random::GenConfig;
use crate::observe::{ImageObs, observe_full};
use crate::rng::{Rng, derive};
use crate::simio::{ALL_CHUNK_KINDS, ChunkKind, ChunkSchedule, ReadFault, SimReader};
use serde::{Deserialize, Serialize};

#[derive(Clone, Debug, Serialize, Deserialize)]
pub struct Scenario {
    pub case: StreamCase,
    pub schedules: Vec<ChunkSchedule>,
    /// scripts for the `Read` driver (short reads only)
    pub read_scripts: Vec<Vec<Option<ReadFault>>>,
    pub force_wide: bool,
    /// also load through the `image`-crate adapter (its own `Read` loop) with the same read scripts
    #[serde(default)]
    pub adapter: bool,
}

pub fn generate(seed: u64, tier: Tier) -> Scenario {
    let mut rng = Rng::new(derive(seed, 9, 0));
    let cfg = if rng.chance(1, 4) { GenConfig::medium() } else { GenConfig::small() }.swarm(&mut rng);
    let mut cfg = cfg;
    cfg.vardct = rng.chance(1, 3);
    let case = valid_stream(&mut rng, &cfg, if tier == Tier::Quick { 1500 } else { 300 }, 40);
    let len = case.bytes.len();
    let n = if tier == Tier::Quick { 3 } else { 6 };
    let mut schedules = Vec::new();
    if len <= 6000 {
        schedules.push(ChunkSchedule::random(&mut rng, ChunkKind::OneByte, len, &case.structural, &case.headers));
    }
    schedules.push(ChunkSchedule::random(&mut rng, ChunkKind::Structural, len, &case.structural, &case.headers));
    if case.container {
        schedules.push(ChunkSchedule::random(&mut rng, ChunkKind::InsideHeader, len, &case.structural, &case.headers));
    }
    while schedules.len() < n {
        let kind = *rng.pick(&ALL_CHUNK_KINDS);
        if kind == ChunkKind::Whole || (kind == ChunkKind::OneByte && len > 6000) {
            continue;
        }
        schedules.push(ChunkSchedule::random(&mut rng, kind, len, &case.structural, &case.headers));
    }
    let mut read_scripts = Vec::new();
    for _ in 0..2 {
        let calls = rng.usize_in(4, 64);
        let p = *rng.pick(&[2u64, 4, 10]);
        read_scripts.push((0..calls).map(|_| if rng.chance(1, p) { Some(ReadFault::Short(*rng.pick(&[1usize, 2, 3, 7, 100, 4095]))) } else { None }).collect());
    }
    if case.shape == "fixture" {
        schedules.truncate(2);
        read_scripts.truncate(1);
    }
    let force_wide = rng.chance(1, 5);
    let adapter = rng.chance(1, 2);
    Scenario { case, schedules, read_scripts, force_wide, adapter }
}

pub fn digest(sc: &Scenario) -> u64 {
    let mut h = crate::harness::Fnv::new();
    h.write(&sc.case.bytes);
    for s in &sc.schedules {
        for &n in &s.sizes {
            h.write_u64(n as u64);
        }
    }
    h.finish()
}

fn viol(seed: u64, sc: &Scenario, class: String, detail: String) -> Violation {
    let class = sc.case.tag(class);
    Violation { property: "C09".into(), check: "c09".into(), class, detail, seed, scenario: serde_json::to_value(sc).unwrap() }
}

fn diff_field(d: &str) -> &str {
    d.split(':').next().unwrap_or("?").split(' ').next().unwrap_or("?")
}

pub fn execute(seed: u64, sc: &Scenario, stats: &mut Stats) -> Result<(), Violation> {
    stats.evaluations += 1;
    let bytes = &sc.case.bytes;
    let opts = LoadOpts { force_wide: sc.force_wide, ..Default::default() };
    let reference: ImageObs = match load_with(bytes, &ChunkSchedule::whole(bytes.len()), &opts, |_, _| Ok(())) {
        Ok(img) => observe_full(&img),
        Err(_) => {
            stats.generator_rejects += 1;
            return Ok(());
        }
    };
    if !reference.done || reference.renders.iter().any(|r| !r.is_ok()) {
        stats.generator_rejects += 1;
        return Ok(());
    }
    let dbg = std::env::var("VERIF_DEBUG_TIMING").is_ok();
    let mut t_last = std::time::Instant::now();
    for sched in &sc.schedules {
        if dbg {
            eprintln!("[timing] reference/prev took {:?}; next {:?} x{}", t_last.elapsed(), sched.kind, sched.sizes.len());
            t_last = std::time::Instant::now();
        }
        stats.steps += sched.sizes.len() as u64;
        stats.fault(&format!("chunking:{:?}", sched.kind));
        stats.distinct_sig(&[&sc.case.shape, &sched.kind]);
        let mut last_frames = 0usize;
        let mut last_keyframes = 0usize;
        let mut mono_err = None;
        let img = load_with(bytes, sched, &opts, |at, loader| {
            if let Loader::Ready(img) = loader {
                let (f, k) = (img.num_loaded_frames(), img.num_loaded_keyframes());
                if f < last_frames || k < last_keyframes {
                    mono_err = Some(format!("loaded frame count went from {last_frames}/{last_keyframes} to {f}/{k} after {at} bytes"));
                }
                last_frames = f;
                last_keyframes = k;
            }
            Ok(())
        });
        if let Some(m) = mono_err {
            return Err(viol(seed, sc, "not_monotone".into(), m));
        }
        let img = match img {
            Ok(i) => i,
            Err(e) => {
                let class = match &e {
                    LoadError::Feed(..) => "feed_error",
                    LoadError::Init(..) => "init_error",
                    LoadError::NeverInitialised => "never_initialised",
                    LoadError::Finalize(_) => "finalize_error",
                };
                return Err(viol(seed, sc, format!("chunked_{class}"), format!("{e} under {:?} chunking; the same bytes in one buffer decode fine", sched.kind)));
            }
        };
        let got = observe_full(&img);
        if let Some(d) = reference.diff(&got) {
            return Err(viol(seed, sc, format!("differs:{}", diff_field(&d)), format!("one-buffer vs {:?} chunking: {d}", sched.kind)));
        }
    }
    // Read driver with short reads
    for script in &sc.read_scripts {
        if dbg {
            eprintln!("[timing] prev took {:?}; next read script x{}", t_last.elapsed(), script.len());
            t_last = std::time::Instant::now();
        }
        let mut reader = SimReader::new(bytes, script.clone());
        let mut b = jxl_oxide::JxlImage::builder().pool(jxl_oxide::JxlThreadPool::none()).force_wide_buffers(sc.force_wide);
        let _ = &mut b;
        let r = b.read(&mut reader);
        stats.fault_n("short_read", reader.fired.len() as u64);
        stats.distinct_sig(&[&sc.case.shape, &"read", &reader.fired.len().min(4)]);
        match r {
            Err(e) => {
                let site = if sc.case.brob_after_codestream { "trailing_brob_box" } else { "other" };
                return Err(viol(seed, sc, format!("read_error:{site}"), format!("read() failed: {e}; the same bytes fed in one buffer decode fine ({} short reads fired)", reader.fired.len())));
            }
            Ok(img) => {
                let mut got = observe_full(&img);
                let mut want = reference.clone();
                if sc.case.aux_after_codestream {
                    // read() stops at end-of-image by design: boxes after the last codestream box are not seen
                    stats.probe("read_stops_before_trailing_boxes");
                    for o in [&mut got, &mut want] {
                        o.exif.clear();
                        o.xml.clear();
                        o.jbrd.clear();
                    }
                }
                if let Some(d) = want.diff(&got) {
                    return Err(viol(seed, sc, format!("read_differs:{}", diff_field(&d)), format!("one-buffer feed vs read() with short reads: {d}")));
                }
            }
        }
    }
    // the image-crate adapter: whole stream in one read vs the scripted short reads
    if sc.adapter {
        crate::harness::heartbeat("c09-adapter");
        let (want, _) = crate::checks::adapter::observe(bytes, vec![]);
        for script in &sc.read_scripts {
            let (got, fired) = crate::checks::adapter::observe(bytes, script.clone());
            stats.fault_n("adapter_short_read", fired as u64);
            let d = match (&want, &got) {
                (Ok(a), Ok(b)) => a.diff(b),
                (Err(a), Err(b)) if a == b => None,
                (a, b) => Some(format!("construction: {:?} vs {:?}", a.as_ref().map(|_| "ok"), b.as_ref().map(|_| "ok"))),
            };
            if let Some(d) = d {
                return Err(viol(seed, sc, "adapter_read_differs".into(), format!("JxlDecoder reading the stream in one piece vs with {fired} short reads: {d}")));
            }
            stats.probe(if want.is_ok() { "adapter_decoded" } else { "adapter_rejected_consistently" });
        }
    }
    if dbg {
        eprintln!("[timing] prev took {:?}; done", t_last.elapsed());
    }
    stats.sample(serde_json::json!({
        "source": sc.case.source, "shape": sc.case.shape, "len": bytes.len(),
        "schedules": sc.schedules.iter().map(|s| format!("{:?}x{}", s.kind, s.sizes.len())).collect::<Vec<_>>(),
        "frames": reference.frames, "keyframes": reference.keyframes,
    }));
    Ok(())
}

pub fn minimise(sc: &Scenario, still: &dyn Fn(&Scenario) -> bool) -> Scenario {
    let mut best = sc.clone();
    // one schedule (or none, if the read driver alone fails)
    let mut c = best.clone();
    c.schedules.clear();
    if still(&c) {
        best = c;
    } else {
        for i in 0..best.schedules.len() {
            let mut c = best.clone();
            c.schedules = vec![best.schedules[i].clone()];
            c.read_scripts.clear();
            if still(&c) {
                best = c;
                break;
            }
        }
    }
    // merge chunks
    if best.schedules.len() == 1 {
        let s = best.schedules[0].clone();
        let total = best.case.bytes.len();
        let mut cuts = s.cut_offsets();
        cuts.dedup();
        // coarse: try keeping only each single cut first
        for &c0 in &cuts.clone() {
            let mut c = best.clone();
            c.schedules = vec![ChunkSchedule::from_cuts(s.kind, vec![c0], total)];
            if still(&c) {
                return c;
            }
        }
        let mut i = 0;
        let mut budget = 200;
        while i < cuts.len() && budget > 0 {
            budget -= 1;
            let mut c2 = cuts.clone();
            c2.remove(i);
            let mut c = best.clone();
            c.schedules = vec![ChunkSchedule::from_cuts(s.kind, c2.clone(), total)];
            if still(&c) {
                cuts = c2;
                best = c;
            } else {
                i += 1;
            }
        }
    }
    best
}
