#!/usr/bin/env python3
"""Prints the markdown table of seeded mutations from /verif/seeded/*/meta.json and patch.diff."""
import glob, json, os, re
V = os.path.dirname(os.path.dirname(os.path.abspath(__file__)))
rows = []
for d in sorted(glob.glob(f"{V}/seeded/*/")):
    m = json.load(open(d + "meta.json"))
    patch = open(d + "patch.diff").read()
    files = sorted(set(re.findall(r"^\+\+\+ b/(\S+)", patch, re.M)))
    ran = {r["check"]: (r["exit"], r["violation_classes"][:2]) for r in m.get("ran", [])}
    earlier = m.get("earlier_rounds", [])
    note = ""
    if earlier and not earlier[-1].get("detected_by") and m.get("detected_by"):
        note = " (missed before the check was strengthened)"
    det = ", ".join(f"{c} [{'; '.join(v[1])}]" for c, v in ran.items() if v[0] == 1) or "— not detected"
    rows.append((m["name"], m["property"], ", ".join(f.replace("crates/", "") for f in files), "yes" if m.get("demo_confirms") else "?", "yes" if m.get("compiles_and_passes_suite") else "?", det + note))
print("| mutation | property | file(s) | demo confirmed | suite unchanged | caught by [classes] |")
print("|---|---|---|---|---|---|")
for r in rows:
    print("| " + " | ".join(r) + " |")
