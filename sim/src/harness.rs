//! Common machinery: per-worker statistics, violations, error classification, digests.
use serde::{Deserialize, Serialize};
use std::collections::{BTreeMap, BTreeSet};

#[derive(Clone, Copy, Debug, PartialEq, Eq)]
pub enum Tier {
    Quick,
    Thorough,
}

#[derive(Clone, Debug, Serialize, Deserialize)]
pub struct Violation {
    pub property: String,
    pub check: String,
    /// stable class used to decide "same violation" during minimisation and for known findings
    pub class: String,
    pub detail: String,
    pub seed: u64,
    pub scenario: serde_json::Value,
}

#[derive(Default, Serialize, Deserialize)]
pub struct Stats {
    pub evaluations: u64,
    /// hashes of distinct non-trivial case signatures
    pub distinct: BTreeSet<u64>,
    pub faults_fired: BTreeMap<String, u64>,
    pub probes: BTreeMap<String, u64>,
    pub generator_rejects: u64,
    pub schedules: BTreeSet<u64>,
    pub states: BTreeSet<u64>,
    pub samples: Vec<serde_json::Value>,
    pub steps: u64,
}

impl Stats {
    pub fn merge(&mut self, o: Stats) {
        self.evaluations += o.evaluations;
        self.distinct.extend(o.distinct);
        for (k, v) in o.faults_fired {
            *self.faults_fired.entry(k).or_insert(0) += v;
        }
        for (k, v) in o.probes {
            *self.probes.entry(k).or_insert(0) += v;
        }
        self.generator_rejects += o.generator_rejects;
        self.schedules.extend(o.schedules);
        self.states.extend(o.states);
        for s in o.samples {
            self.sample(s);
        }
        self.steps += o.steps;
    }

    pub fn fault(&mut self, kind: &str) {
        *self.faults_fired.entry(kind.to_string()).or_insert(0) += 1;
    }
    pub fn fault_n(&mut self, kind: &str, n: u64) {
        if n > 0 {
            *self.faults_fired.entry(kind.to_string()).or_insert(0) += n;
        }
    }
    pub fn probe(&mut self, name: &str) {
        *self.probes.entry(name.to_string()).or_insert(0) += 1;
    }
    pub fn probe_n(&mut self, name: &str, n: u64) {
        *self.probes.entry(name.to_string()).or_insert(0) += n;
    }
    pub fn distinct_sig(&mut self, parts: &[&dyn std::fmt::Debug]) {
        let mut h = Fnv::new();
        for p in parts {
            h.write(format!("{p:?}|").as_bytes());
        }
        self.distinct.insert(h.finish());
    }
    pub fn sample(&mut self, v: serde_json::Value) {
        if self.samples.len() < 3 {
            self.samples.push(v);
        }
    }
}

/// FNV-1a 64 — stable across processes (no RandomState).
#[derive(Clone)]
pub struct Fnv(u64);

impl Fnv {
    pub fn new() -> Self {
        Self(0xcbf29ce484222325)
    }
    #[inline]
    pub fn write(&mut self, b: &[u8]) {
        for &x in b {
            self.0 ^= x as u64;
            self.0 = self.0.wrapping_mul(0x100000001b3);
        }
    }
    #[inline]
    pub fn write_u32(&mut self, v: u32) {
        self.write(&v.to_le_bytes());
    }
    #[inline]
    pub fn write_u64(&mut self, v: u64) {
        self.write(&v.to_le_bytes());
    }
    pub fn finish(&self) -> u64 {
        self.0
    }
}

pub fn hash_bytes(b: &[u8]) -> u64 {
    let mut h = Fnv::new();
    h.write(b);
    h.finish()
}

/// Error classes — by type (downcast), never by message text.
#[derive(Clone, Copy, Debug, PartialEq, Eq, Hash, Serialize, Deserialize)]
pub enum ErrClass {
    NeedMoreData,
    OutOfMemory,
    FailedReference,
    Io,
    Decode,
    Other,
}

pub fn classify(e: &(dyn std::error::Error + Send + Sync + 'static)) -> ErrClass {
    use jxl_render::Error as RE;
    if let Some(e) = e.downcast_ref::<RE>() {
        return match e {
            RE::IncompleteFrame => ErrClass::NeedMoreData,
            RE::Buffer(_) => ErrClass::OutOfMemory,
            RE::FailedReference => ErrClass::FailedReference,
            e if e.unexpected_eof() => ErrClass::NeedMoreData,
            e if render_is_oom(e) => ErrClass::OutOfMemory,
            _ => ErrClass::Decode,
        };
    }
    if let Some(e) = e.downcast_ref::<jxl_frame::Error>() {
        if e.unexpected_eof() {
            return ErrClass::NeedMoreData;
        }
        if matches!(e, jxl_frame::Error::OutOfMemory | jxl_frame::Error::Buffer(_)) || format!("{e:?}").contains("OutOfMemory") {
            return ErrClass::OutOfMemory;
        }
        return ErrClass::Decode;
    }
    if let Some(e) = e.downcast_ref::<jxl_bitstream::Error>() {
        return if e.unexpected_eof() { ErrClass::NeedMoreData } else { ErrClass::Decode };
    }
    if e.downcast_ref::<jxl_grid::OutOfMemory>().is_some() {
        return ErrClass::OutOfMemory;
    }
    if e.downcast_ref::<std::io::Error>().is_some() {
        return ErrClass::Io;
    }
    ErrClass::Other
}

fn render_is_oom(e: &jxl_render::Error) -> bool {
    // nested allocation failures keep their type through the chain
    let mut cur: Option<&(dyn std::error::Error + 'static)> = Some(e);
    while let Some(c) = cur {
        if c.downcast_ref::<jxl_grid::OutOfMemory>().is_some() {
            return true;
        }
        cur = c.source();
    }
    let s = format!("{e:?}");
    s.contains("OutOfMemory")
}

pub fn panic_message(p: &(dyn std::any::Any + Send)) -> String {
    if let Some(s) = p.downcast_ref::<&str>() {
        s.to_string()
    } else if let Some(s) = p.downcast_ref::<String>() {
        s.clone()
    } else {
        "<non-string panic payload>".to_string()
    }
}

thread_local! {
    pub static LAST_PANIC_LOCATION: std::cell::RefCell<String> = const { std::cell::RefCell::new(String::new()) };
}

/// Installs a quiet panic hook that records file:line of the last panic (for violation classes).
pub fn install_panic_hook() {
    std::panic::set_hook(Box::new(|info| {
        let mut loc = info.location().map(|l| format!("{}:{}", l.file(), l.line())).unwrap_or_default();
        if is_decoder_location(&loc) && !cfg!(miri) {
            // which decoder functions were on the stack: the class of a panic is file + message +
            // call site, so that two different defects that happen to panic with the same message
            // in the same file (a bounds check in blend.rs, say) are told apart without line numbers
            let site = panic_site(&std::backtrace::Backtrace::force_capture().to_string());
            if !site.is_empty() {
                loc = format!("{loc}@{site}");
            }
        }
        LAST_PANIC_LOCATION.with(|c| *c.borrow_mut() = loc);
    }));
}

/// `fn1<fn2`: the innermost decoder function outside the grid utility crate and its nearest distinct
/// decoder caller, generics, closures and hashes stripped, last two path segments each.
pub fn panic_site(backtrace: &str) -> String {
    let mut frames: Vec<String> = Vec::new();
    for line in backtrace.lines() {
        let t = line.trim_start();
        let Some((num, sym)) = t.split_once(": ") else { continue };
        if num.is_empty() || !num.chars().all(|c| c.is_ascii_digit()) {
            continue;
        }
        let sym = sym.trim();
        let core = sym.trim_start_matches('<');
        if !core.starts_with("jxl_") || core.starts_with("jxl_grid") || core.starts_with("jxlsim") {
            continue;
        }
        // strip generic arguments
        let mut out = String::new();
        let mut depth = 0i32;
        for ch in sym.chars() {
            match ch {
                '<' => depth += 1,
                '>' => depth -= 1,
                _ if depth == 0 => out.push(ch),
                _ => {}
            }
        }
        // `<T as Trait>::f` leaves `::f` after stripping: fall back to the text inside the brackets
        let out = if out.starts_with("::") || out.is_empty() { sym.replace(['<', '>'], "") } else { out };
        let segs: Vec<&str> = out.split("::").filter(|s| !s.is_empty() && *s != "{{closure}}" && !(s.starts_with('h') && s.len() == 17 && s[1..].chars().all(|c| c.is_ascii_hexdigit()))).collect();
        let n = segs.len();
        let name = if n >= 2 { format!("{}::{}", segs[n - 2], segs[n - 1]) } else { segs.join("::") };
        let name: String = name.chars().filter(|c| c.is_ascii_alphanumeric() || *c == '_' || *c == ':').collect();
        if frames.last() != Some(&name) {
            frames.push(name);
        }
        if frames.len() == 2 {
            break;
        }
    }
    frames.join("<")
}

pub fn last_panic_location() -> String {
    LAST_PANIC_LOCATION.with(|c| c.borrow().clone())
}

/// Thread CPU time in seconds (immune to machine load).
pub fn thread_cpu_secs() -> f64 {
    if cfg!(miri) {
        return 0.0;
    }
    let mut ts = libc::timespec { tv_sec: 0, tv_nsec: 0 };
    unsafe {
        libc::clock_gettime(libc::CLOCK_THREAD_CPUTIME_ID, &mut ts);
    }
    ts.tv_sec as f64 + ts.tv_nsec as f64 * 1e-9
}

/// CPU time consumed so far by another thread of this process.
pub fn cpu_secs_of(thread: libc::pthread_t) -> Option<f64> {
    let mut clock: libc::clockid_t = 0;
    let rc = unsafe { libc::pthread_getcpuclockid(thread, &mut clock) };
    if rc != 0 {
        return None;
    }
    let mut ts = libc::timespec { tv_sec: 0, tv_nsec: 0 };
    if unsafe { libc::clock_gettime(clock, &mut ts) } != 0 {
        return None;
    }
    Some(ts.tv_sec as f64 + ts.tv_nsec as f64 * 1e-9)
}

pub static HEARTBEAT: std::sync::atomic::AtomicU64 = std::sync::atomic::AtomicU64::new(0);
thread_local! {
    pub static CURRENT_STEP: std::cell::RefCell<String> = const { std::cell::RefCell::new(String::new()) };
}
pub static CURRENT_STEP_SHARED: std::sync::Mutex<String> = std::sync::Mutex::new(String::new());

/// Called by checks before every public decoder call: feeds the hang watchdog.
pub fn heartbeat(step: &str) {
    HEARTBEAT.fetch_add(1, std::sync::atomic::Ordering::Relaxed);
    if let Ok(mut g) = CURRENT_STEP_SHARED.try_lock() {
        g.clear();
        g.push_str(step);
    }
}

/// Root of the repository under test (`VERIF_REPO`, default `/repo`): panics located under it are
/// decoder panics.
pub fn repo_root() -> String {
    std::env::var("VERIF_REPO").unwrap_or_else(|_| "/repo".to_string())
}

pub fn is_decoder_location(loc: &str) -> bool {
    let root = repo_root();
    loc.starts_with(&format!("{root}/")) || loc.starts_with("/repo/") || loc.contains("/rustc/") || loc.contains("/.cargo/registry/")
}

#[cfg(verif_msan)]
unsafe extern "C" {
    fn __msan_check_mem_is_initialized(x: *const std::ffi::c_void, size: usize);
}

/// Every sample a render hands out must be initialised memory. Under the MemorySanitizer build
/// (`--cfg verif_msan`) this asks the sanitizer about the whole buffer, which reports an
/// uninitialised byte together with the place it was created; otherwise it folds the buffer so that
/// ASan / Miri see a read of every element.
pub fn touch_samples(buf: &[f32]) {
    #[cfg(verif_msan)]
    unsafe {
        __msan_check_mem_is_initialized(buf.as_ptr() as *const _, std::mem::size_of_val(buf));
    }
    let mut acc = 0u32;
    for v in buf {
        acc = acc.wrapping_mul(31).wrapping_add(v.to_bits());
    }
    std::hint::black_box(acc);
}

/// Panics raised inside tasks of the real rayon pool of a C02 run (swallowed by the pool's panic handler).
pub static POOL_TASK_PANICS: std::sync::atomic::AtomicU64 = std::sync::atomic::AtomicU64::new(0);

/// Calls declared hung by the watchdog in this process (each leaks its thread).
pub static HANGS: std::sync::atomic::AtomicU64 = std::sync::atomic::AtomicU64::new(0);
