//! C06 — a region-of-interest render equals the same rectangle of the full render.
use crate::checks::common::*;
use crate::harness::{Stats, Tier, Violation};
use crate::jxlgen::random::GenConfig;
use crate::rng::{Rng, derive};
use crate::simio::ChunkSchedule;
use jxl_oxide::{CropInfo, JxlImage, JxlThreadPool};
use serde::{Deserialize, Serialize};

#[derive(Clone, Debug, Serialize, Deserialize)]
pub enum Op {
    /// rectangle in pixels of the oriented image; clipped to the image at run time
    SetRegion(u32, u32, u32, u32),
    Full,
    Render(usize),
}

#[derive(Clone, Debug, Serialize, Deserialize)]
pub struct Scenario {
    pub case: StreamCase,
    pub ops: Vec<Op>,
    pub force_wide: bool,
}

fn pick_coord(rng: &mut Rng, max: u32) -> u32 {
    let anchors = [0u32, 1, 2, 3, 5, 6, 7, 8, 9, 15, 16, 17, 63, 64, 65, 120, 125, 127, 128, 129, 130, 136, 255, 256, 257];
    let v = match rng.below(4) {
        0 | 1 => *rng.pick(&anchors),
        _ => rng.below(max as u64 + 1) as u32,
    };
    v.min(max)
}

pub fn generate(seed: u64, tier: Tier) -> Scenario {
    let mut rng = Rng::new(derive(seed, 6, 0));
    let mut cfg = if rng.chance(1, 2) { GenConfig::medium() } else { GenConfig::small() }.swarm(&mut rng);
    if rng.chance(3, 5) {
        cfg.max_frames = 1;
    }
    cfg.vardct = rng.chance(1, 3);
    let case = valid_stream(&mut rng, &cfg, 0, 10);
    let n = if tier == Tier::Quick { rng.usize_in(4, 10) } else { rng.usize_in(6, 24) };
    let mut ops = Vec::new();
    for _ in 0..n {
        match rng.below(10) {
            0 => ops.push(Op::Full),
            1..=4 => {
                let l = pick_coord(&mut rng, 400);
                let t = pick_coord(&mut rng, 400);
                let (w, h) = match rng.below(5) {
                    0 => (1, 1),
                    1 => (10_000, 1 + rng.below(8) as u32), // full-width strip
                    2 => (1 + rng.below(8) as u32, 10_000),
                    _ => (1 + pick_coord(&mut rng, 300), 1 + pick_coord(&mut rng, 300)),
                };
                ops.push(Op::SetRegion(l, t, w, h));
                ops.push(Op::Render(rng.below(3) as usize));
            }
            _ => ops.push(Op::Render(rng.below(3) as usize)),
        }
    }
    Scenario { case, ops, force_wide: rng.chance(1, 6) }
}

pub fn digest(sc: &Scenario) -> u64 {
    let mut h = crate::harness::Fnv::new();
    h.write(&sc.case.bytes);
    h.write(format!("{:?}", sc.ops).as_bytes());
    h.finish()
}

fn viol(seed: u64, sc: &Scenario, class: String, detail: String) -> Violation {
    let class = sc.case.tag(class);
    Violation { property: "C06".into(), check: "c06".into(), class, detail, seed, scenario: serde_json::to_value(sc).unwrap() }
}

/// Does any frame blend with an alpha channel while its colour channels are rendered with a
/// padded region (restoration filter or upsampling)? That is the trigger of known finding F14.
fn alpha_padding_site(sc: &Scenario) -> &'static str {
    let Some(p) = &sc.case.program else { return "unknown_program" };
    let has_ec = p["extra"].as_array().map(|a| !a.is_empty()).unwrap_or(false);
    let frames = p["frames"].as_array().cloned().unwrap_or_default();
    for f in &frames {
        let uses_alpha = |b: &serde_json::Value| matches!(b["mode"].as_str(), Some("Blend") | Some("MulAdd"));
        let alpha_blend = has_ec && (uses_alpha(&f["blend"]) || f["ec_blend"].as_array().map(|a| a.iter().any(uses_alpha)).unwrap_or(false));
        let padded = f["gab"] != "Off" || !f["epf"].is_null() || f["upsampling"].as_u64().unwrap_or(1) > 1 || f["ec_upsampling"].as_array().map(|a| a.iter().any(|u| u.as_u64().unwrap_or(1) > 1)).unwrap_or(false);
        if alpha_blend && padded {
            return "alpha_blend_with_padded_colour_region";
        }
    }
    if p["extra"].as_array().map(|a| a.iter().any(|e| e["dim_shift"].as_u64().unwrap_or(0) > 0)).unwrap_or(false) {
        return "upsampled_channel";
    }
    for f in &frames {
        let up = f["upsampling"].as_u64().unwrap_or(1) > 1 || f["ec_upsampling"].as_array().map(|a| a.iter().any(|u| u.as_u64().unwrap_or(1) > 1)).unwrap_or(false);
        if up {
            return "upsampled_channel";
        }
    }
    if p["xyb"].as_bool().unwrap_or(false) {
        // XYB images go through the per-pixel colour transform (SIMD body + scalar tail, whose
        // split depends on where the region starts): known finding F28
        return "xyb_colour_transform";
    }
    "other"
}

struct Planes {
    width: usize,
    height: usize,
    planes: Vec<Vec<f32>>,
}

fn planes_of(r: &jxl_oxide::Render) -> Planes {
    let p = r.image_planar();
    let (width, height) = p.first().map(|f| (f.width(), f.height())).unwrap_or((0, 0));
    Planes { width, height, planes: p.iter().map(|f| f.buf().to_vec()).collect() }
}

pub fn execute(seed: u64, sc: &Scenario, stats: &mut Stats) -> Result<(), Violation> {
    stats.evaluations += 1;
    let bytes = &sc.case.bytes;
    let opts = LoadOpts { force_wide: sc.force_wide, pool: JxlThreadPool::none(), tracker: None };
    let load = || load_with(bytes, &ChunkSchedule::whole(bytes.len()), &opts, |_, _| Ok(()));
    // reference: a decoder that never had a region set
    crate::harness::heartbeat("c06-reference");
    let Ok(fresh) = load() else {
        stats.generator_rejects += 1;
        return Ok(());
    };
    let nkey = fresh.num_loaded_keyframes();
    let mut full: Vec<Option<Planes>> = Vec::new();
    for k in 0..nkey {
        match fresh.render_frame(k) {
            Ok(r) => full.push(Some(planes_of(&r))),
            Err(_) => {
                stats.generator_rejects += 1;
                return Ok(());
            }
        }
    }
    if nkey == 0 {
        stats.generator_rejects += 1;
        return Ok(());
    }
    let (iw, ih) = (fresh.width(), fresh.height());
    drop(fresh);
    let Ok(mut img): Result<JxlImage, _> = load() else { return Ok(()) };
    let mut region: Option<(u32, u32, u32, u32)> = None;
    let mut nregions = 0u32;
    for (i, op) in sc.ops.iter().enumerate() {
        stats.steps += 1;
        crate::harness::heartbeat("c06-op");
        match op {
            Op::Full => {
                img.set_image_region(CropInfo { left: 0, top: 0, width: iw, height: ih });
                region = None;
            }
            Op::SetRegion(l, t, w, h) => {
                // coordinates are drawn for images up to 400 px; on smaller images they wrap
                // (clamping would pile most rectangles up as 1x1 at the bottom-right corner)
                let l = if *l < iw { *l } else { *l % iw };
                let t = if *t < ih { *t } else { *t % ih };
                let fit = |v: u32, room: u32| if v >= 10_000 || v <= room { v.clamp(1, room) } else { 1 + (v - 1) % room };
                let w = fit(*w, iw - l);
                let h = fit(*h, ih - t);
                img.set_image_region(CropInfo { left: l, top: t, width: w, height: h });
                region = Some((l, t, w, h));
                nregions += 1;
            }
            Op::Render(k) => {
                let k = k % nkey;
                let r = match img.render_frame(k) {
                    Ok(r) => r,
                    Err(e) => {
                        return Err(viol(seed, sc, "region_render_error".into(), format!("op #{i}: render_frame({k}) with region {region:?} failed: {e}; the full render succeeds")));
                    }
                };
                let got = planes_of(&r);
                let want = full[k].as_ref().unwrap();
                let (l, t, w, h) = region.unwrap_or((0, 0, iw, ih));
                if got.width != w as usize || got.height != h as usize {
                    return Err(viol(seed, sc, "region_dims".into(), format!("op #{i}: region {l},{t} {w}x{h} of keyframe {k} returned a {}x{} buffer", got.width, got.height)));
                }
                if got.planes.len() != want.planes.len() {
                    return Err(viol(seed, sc, "region_channels".into(), format!("op #{i}: {} channels vs {} in the full render", got.planes.len(), want.planes.len())));
                }
                for (c, (gp, wp)) in got.planes.iter().zip(&want.planes).enumerate() {
                    for y in 0..h as usize {
                        let wrow = &wp[(t as usize + y) * want.width + l as usize..][..w as usize];
                        let grow = &gp[y * got.width..][..w as usize];
                        for x in 0..w as usize {
                            let (a, b) = (wrow[x], grow[x]);
                            let same = a.to_bits() == b.to_bits() || (a.is_nan() && b.is_nan()) || (a - b).abs() <= 1e-6;
                            if !same {
                                let kind = if region.is_some() { format!("region_differs:{}", alpha_padding_site(sc)) } else { "full_after_regions_differs".to_string() };
                                return Err(viol(
                                    seed,
                                    sc,
                                    kind,
                                    format!("op #{i}: keyframe {k}, region {l},{t} {w}x{h} (after {nregions} region requests): channel {c} at region x={x} y={y} (image x={} y={}) is {b:?}, full render has {a:?}", l as usize + x, t as usize + y),
                                ));
                            }
                        }
                    }
                }
                let kind = if region.is_none() {
                    "full"
                } else if w == 1 && h == 1 {
                    "pixel"
                } else if w == iw || h == ih {
                    "strip"
                } else if l % 128 == 0 || t % 128 == 0 || (l + w) % 128 == 0 {
                    "group_edge"
                } else {
                    "rect"
                };
                stats.fault(&format!("region:{kind}"));
                stats.distinct_sig(&[&sc.case.shape, &kind, &(nregions.min(3))]);
            }
        }
    }
    stats.sample(serde_json::json!({"shape": sc.case.shape, "image": [iw, ih], "keyframes": nkey, "ops": sc.ops.iter().take(12).map(|o| format!("{o:?}")).collect::<Vec<_>>()}));
    Ok(())
}

pub fn minimise(sc: &Scenario, still: &dyn Fn(&Scenario) -> bool) -> Scenario {
    let mut best = sc.clone();
    let case = shrink_case(&best.case, &|c| {
        let mut s = best.clone();
        s.case = c.clone();
        still(&s)
    });
    best.case = case;
    let mut i = 0;
    while i < best.ops.len() {
        let mut c = best.clone();
        c.ops.remove(i);
        if still(&c) {
            best = c;
        } else {
            i += 1;
        }
    }
    best
}
