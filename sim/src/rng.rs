//! Deterministic PRNG owned by the harness: SplitMix64 for seed derivation, xoshiro256** for draws.

#[derive(Clone, Debug)]
pub struct Rng {
    s: [u64; 4],
}

pub fn splitmix64(x: &mut u64) -> u64 {
    *x = x.wrapping_add(0x9E3779B97F4A7C15);
    let mut z = *x;
    z = (z ^ (z >> 30)).wrapping_mul(0xBF58476D1CE4E5B9);
    z = (z ^ (z >> 27)).wrapping_mul(0x94D049BB133111EB);
    z ^ (z >> 31)
}

/// Derives an independent seed from (base seed, stream label, index).
pub fn derive(base: u64, label: u64, index: u64) -> u64 {
    let mut x = base ^ label.wrapping_mul(0xD6E8FEB86659FD93) ^ index.wrapping_mul(0xA0761D6478BD642F);
    let a = splitmix64(&mut x);
    let b = splitmix64(&mut x);
    a ^ b.rotate_left(17)
}

impl Rng {
    pub fn new(seed: u64) -> Self {
        let mut x = seed;
        let s = [splitmix64(&mut x), splitmix64(&mut x), splitmix64(&mut x), splitmix64(&mut x)];
        Self { s }
    }

    #[inline]
    pub fn next_u64(&mut self) -> u64 {
        let result = self.s[1].wrapping_mul(5).rotate_left(7).wrapping_mul(9);
        let t = self.s[1] << 17;
        self.s[2] ^= self.s[0];
        self.s[3] ^= self.s[1];
        self.s[1] ^= self.s[2];
        self.s[0] ^= self.s[3];
        self.s[2] ^= t;
        self.s[3] = self.s[3].rotate_left(45);
        result
    }

    #[inline]
    pub fn next_u32(&mut self) -> u32 {
        (self.next_u64() >> 32) as u32
    }

    /// Uniform in `0..n` (n > 0).
    #[inline]
    pub fn below(&mut self, n: u64) -> u64 {
        debug_assert!(n > 0);
        ((self.next_u64() as u128 * n as u128) >> 64) as u64
    }

    #[inline]
    pub fn range(&mut self, lo: i64, hi_incl: i64) -> i64 {
        lo + self.below((hi_incl - lo + 1) as u64) as i64
    }

    #[inline]
    pub fn usize_in(&mut self, lo: usize, hi_incl: usize) -> usize {
        lo + self.below((hi_incl - lo + 1) as u64) as usize
    }

    /// True with probability num/den.
    #[inline]
    pub fn chance(&mut self, num: u64, den: u64) -> bool {
        self.below(den) < num
    }

    pub fn pick<'a, T>(&mut self, v: &'a [T]) -> &'a T {
        &v[self.below(v.len() as u64) as usize]
    }

    pub fn shuffle<T>(&mut self, v: &mut [T]) {
        for i in (1..v.len()).rev() {
            let j = self.below(i as u64 + 1) as usize;
            v.swap(i, j);
        }
    }

    pub fn fork(&mut self) -> Rng {
        Rng::new(self.next_u64())
    }
}
