//! Patches and splines (LfGlobal image features), reach only: their pixels have no ground truth in
//! the harness, so streams using them are compared with themselves (other chunkings, schedules,
//! pool sizes, regions) and never with the C05 composition model.
use super::entropy::Coder;
use super::*;
use crate::bits::{BitWriter, pack_signed};
use crate::rng::Rng;

#[derive(Clone, Debug, Serialize, Deserialize)]
pub struct PatchBlend {
    /// 0 none, 1 replace, 2 add, 3 mul, 4 blend above, 5 blend below, 6 muladd above, 7 muladd below
    pub mode: u32,
    pub alpha: u32,
    pub clamp: bool,
}

#[derive(Clone, Debug, Serialize, Deserialize)]
pub struct PatchRefSpec {
    pub ref_idx: u32,
    pub x0: u32,
    pub y0: u32,
    pub w: u32,
    pub h: u32,
    /// position + one blend entry for colour and one per extra channel
    pub targets: Vec<(i32, i32, Vec<PatchBlend>)>,
}

#[derive(Clone, Debug, Serialize, Deserialize)]
pub struct PatchSpec {
    pub refs: Vec<PatchRefSpec>,
    pub seed: u64,
}

#[derive(Clone, Debug, Serialize, Deserialize)]
pub struct SplineSpec {
    pub quant_adjust: i32,
    /// per spline: control points (absolute), colour DCT (3 x 32), sigma DCT (32)
    pub splines: Vec<(Vec<(i64, i64)>, Vec<Vec<i32>>, Vec<i32>)>,
    pub seed: u64,
}

impl PatchSpec {
    /// `slots[i]`: dimensions of the frame currently saved in reference slot `i`.
    pub fn random(rng: &mut Rng, prog: &Program, frame_dims: (u32, u32), slots: &[Option<(u32, u32)>; 4], safe: bool) -> Option<Self> {
        let (fw, fh) = frame_dims;
        let max_refs = (fw as u64 * fh as u64 / 16).min(3);
        if max_refs == 0 {
            return None;
        }
        let usable: Vec<u32> = (0..4u32).filter(|&i| slots[i as usize].is_some()).collect();
        if safe && usable.is_empty() {
            return None;
        }
        let alpha_idx: Vec<u32> = prog.extra.iter().enumerate().filter(|(_, e)| matches!(e.kind, EcKind::Alpha { .. })).map(|(i, _)| i as u32).collect();
        let nrefs = rng.range(1, max_refs as i64) as usize;
        let mut refs = Vec::new();
        for _ in 0..nrefs {
            let ref_idx = if safe || (!usable.is_empty() && rng.chance(7, 8)) { *rng.pick(&usable) } else { rng.below(4) as u32 };
            let (rw, rh) = slots[ref_idx as usize].unwrap_or((fw, fh));
            // conformance: source rectangle inside the source frame, every target inside this frame
            // (libjxl rejects anything else; jxl-oxide's handling of it is C01's business)
            let (wmax, hmax) = if safe { (rw.min(fw), rh.min(fh)) } else { (rw, rh) };
            let w = rng.range(1, wmax.min(24) as i64) as u32;
            let h = rng.range(1, hmax.min(24) as i64) as u32;
            let (x0, y0) = if safe || rng.chance(5, 6) {
                (rng.below((rw - w + 1) as u64) as u32, rng.below((rh - h + 1) as u64) as u32)
            } else {
                (rng.below(rw as u64 + 8) as u32, rng.below(rh as u64 + 8) as u32)
            };
            let count = rng.range(1, 3) as usize;
            let mut targets = Vec::new();
            for t in 0..count {
                let (x, y) = if safe {
                    (rng.below((fw - w + 1) as u64) as i32, rng.below((fh - h + 1) as u64) as i32)
                } else if t == 0 || rng.chance(1, 2) {
                    (rng.below(fw as u64) as i32, rng.below(fh as u64) as i32)
                } else {
                    // later targets are delta-coded and may be negative: partly outside on the left/top
                    (rng.range(-(w as i64), fw as i64) as i32, rng.range(-(h as i64), fh as i64) as i32)
                };
                let blends = (0..prog.extra.len() + 1)
                    .map(|_| {
                        let mode = if alpha_idx.is_empty() { rng.below(4) as u32 } else { rng.below(8) as u32 };
                        let alpha = if alpha_idx.is_empty() { 0 } else { *rng.pick(&alpha_idx) };
                        PatchBlend { mode, alpha, clamp: rng.chance(1, 3) }
                    })
                    .collect();
                targets.push((x, y, blends));
            }
            refs.push(PatchRefSpec { ref_idx, x0, y0, w, h, targets });
        }
        Some(Self { refs, seed: rng.next_u64() })
    }

    pub fn write(&self, w: &mut BitWriter, prog: &Program) {
        let n_alpha = prog.extra.iter().filter(|e| matches!(e.kind, EcKind::Alpha { .. })).count();
        let first_alpha = prog.extra.iter().position(|e| matches!(e.kind, EcKind::Alpha { .. })).unwrap_or(0) as u32;
        let mut vals: Vec<(u32, u32)> = vec![(0, self.refs.len() as u32)];
        for r in &self.refs {
            vals.push((1, r.ref_idx));
            vals.push((3, r.x0));
            vals.push((3, r.y0));
            vals.push((2, r.w - 1));
            vals.push((2, r.h - 1));
            vals.push((7, r.targets.len() as u32 - 1));
            let mut prev: Option<(i32, i32)> = None;
            for (x, y, blends) in &r.targets {
                match prev {
                    None => {
                        vals.push((4, *x as u32));
                        vals.push((4, *y as u32));
                    }
                    Some((px, py)) => {
                        vals.push((6, pack_signed(x - px)));
                        vals.push((6, pack_signed(y - py)));
                    }
                }
                prev = Some((*x, *y));
                for b in blends {
                    vals.push((5, b.mode));
                    if b.mode >= 4 && n_alpha >= 2 {
                        vals.push((8, b.alpha));
                    } else {
                        // the decoder takes the first alpha channel
                        let _ = first_alpha;
                    }
                    if b.mode >= 3 {
                        vals.push((9, b.clamp as u32));
                    }
                }
            }
        }
        let maxv = vals.iter().map(|v| v.1).max().unwrap().max(1);
        let mut rng = Rng::new(self.seed);
        let coder = Coder::random(&mut rng, 10, maxv, false);
        coder.write_header(w);
        for (ctx, v) in vals {
            coder.write_value(w, ctx, v);
        }
        coder.end_session(w);
    }
}

impl SplineSpec {
    pub fn random(rng: &mut Rng, frame_dims: (u32, u32)) -> Option<Self> {
        let (fw, fh) = frame_dims;
        let pixels = fw as u64 * fh as u64;
        if pixels < 16 {
            return None;
        }
        let max_splines = (pixels / 4 - 1).min(3);
        if max_splines == 0 {
            return None;
        }
        let n = rng.range(1, max_splines as i64) as usize;
        let mut budget = (pixels / 2).min(12) as usize;
        let mut splines = Vec::new();
        for _ in 0..n {
            let mut pts = vec![(rng.below(fw as u64) as i64, rng.below(fh as u64) as i64)];
            // the decoder's running count includes every earlier spline's starting point
            if !splines.is_empty() && budget == 0 {
                break;
            }
            let np = rng.below(budget.min(4) as u64 + 1) as usize;
            budget = budget.saturating_sub(np + 1);
            for _ in 0..np {
                let last = *pts.last().unwrap();
                let mut next = last;
                while next == last {
                    next = (last.0 + rng.range(-12, 12), last.1 + rng.range(-12, 12));
                }
                pts.push(next);
            }
            let colour: Vec<Vec<i32>> = (0..3)
                .map(|_| (0..32).map(|i| if i == 0 { rng.range(-40, 40) as i32 } else if rng.chance(1, 10) { rng.range(-6, 6) as i32 } else { 0 }).collect())
                .collect();
            let sigma: Vec<i32> = (0..32).map(|i| if i == 0 { rng.range(8, 60) as i32 } else if rng.chance(1, 12) { rng.range(-3, 3) as i32 } else { 0 }).collect();
            splines.push((pts, colour, sigma));
        }
        Some(Self { quant_adjust: rng.range(-4, 8) as i32, splines, seed: rng.next_u64() })
    }

    pub fn write(&self, w: &mut BitWriter) {
        let mut vals: Vec<(u32, u32)> = vec![(2, self.splines.len() as u32 - 1)];
        let mut prev = (0i64, 0i64);
        for (i, (pts, _, _)) in self.splines.iter().enumerate() {
            let p = pts[0];
            if i == 0 {
                vals.push((1, p.0 as u32));
                vals.push((1, p.1 as u32));
            } else {
                vals.push((1, pack_signed((p.0 - prev.0) as i32)));
                vals.push((1, pack_signed((p.1 - prev.1) as i32)));
            }
            prev = p;
        }
        vals.push((0, pack_signed(self.quant_adjust)));
        for (pts, colour, sigma) in &self.splines {
            vals.push((3, pts.len() as u32 - 1));
            let mut cur = pts[0];
            let mut delta = (0i64, 0i64);
            for p in &pts[1..] {
                // the decoder accumulates second-order differences
                let want = (p.0 - cur.0, p.1 - cur.1);
                vals.push((4, pack_signed((want.0 - delta.0) as i32)));
                vals.push((4, pack_signed((want.1 - delta.1) as i32)));
                delta = want;
                cur = *p;
            }
            for c in colour {
                for v in c {
                    vals.push((5, pack_signed(*v)));
                }
            }
            for v in sigma {
                vals.push((5, pack_signed(*v)));
            }
        }
        let maxv = vals.iter().map(|v| v.1).max().unwrap().max(1);
        let mut rng = Rng::new(self.seed);
        let coder = Coder::random(&mut rng, 6, maxv, false);
        coder.write_header(w);
        for (ctx, v) in vals {
            coder.write_value(w, ctx, v);
        }
        coder.end_session(w);
    }
}
