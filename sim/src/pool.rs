//! Simulator-owned executors behind hook H2 (`JxlThreadPool::verif`).
//!
//! * `PermutePool` — one OS thread; every fork-join batch is executed in a seeded, rayon-legal
//!   order (1–4 simulated workers, each owning one clone of the per-worker state and a contiguous
//!   range of items, the workers' steps interleaved at random); scope tasks run immediately, before
//!   the next batch, or at scope end; detached tasks run immediately or are deferred until the
//!   harness drains them between public calls.
//! * `ShuttlePool` (sched build) — every task is a shuttle thread, so the shuttle scheduler owns
//!   the interleaving of tasks, background renders and caller threads.
use crate::harness::Fnv;
use crate::rng::Rng;
use jxl_threadpool::verif::{Plan, Task, VerifPool};
use std::collections::VecDeque;
use std::sync::Mutex;

#[derive(Default)]
struct Scope {
    token: usize,
    deferred: Vec<Task>,
}

struct State {
    rng: Rng,
    detached: VecDeque<Task>,
    scopes: Vec<Scope>,
    next_token: usize,
    decisions: Fnv,
    batches: u64,
    tasks: u64,
    deferred_detached: u64,
    max_workers: usize,
}

pub struct PermutePool {
    st: Mutex<State>,
}

impl std::fmt::Debug for PermutePool {
    fn fmt(&self, f: &mut std::fmt::Formatter<'_>) -> std::fmt::Result {
        write!(f, "PermutePool")
    }
}

impl PermutePool {
    pub fn new(seed: u64) -> std::sync::Arc<Self> {
        std::sync::Arc::new(Self {
            st: Mutex::new(State {
                rng: Rng::new(seed),
                detached: VecDeque::new(),
                scopes: Vec::new(),
                next_token: 1,
                decisions: Fnv::new(),
                batches: 0,
                tasks: 0,
                deferred_detached: 0,
                max_workers: 4,
            }),
        })
    }

    /// Runs the detached tasks deferred so far (called by the harness between public calls and
    /// before the image is dropped). Tasks may spawn more tasks; runs until the queue is empty.
    pub fn drain(&self) {
        loop {
            let t = self.st.lock().unwrap().detached.pop_front();
            match t {
                Some(t) => t(),
                None => break,
            }
        }
    }

    /// Runs a seeded subset of the deferred detached tasks.
    pub fn drain_some(&self) {
        loop {
            let t = {
                let mut st = self.st.lock().unwrap();
                if st.detached.is_empty() || st.rng.chance(1, 2) {
                    None
                } else {
                    let len = st.detached.len() as u64;
                    let i = st.rng.below(len) as usize;
                    st.detached.remove(i)
                }
            };
            match t {
                Some(t) => t(),
                None => break,
            }
        }
    }

    pub fn schedule_hash(&self) -> u64 {
        self.st.lock().unwrap().decisions.finish()
    }

    /// (batches, tasks, deferred detached tasks)
    pub fn counters(&self) -> (u64, u64, u64) {
        let st = self.st.lock().unwrap();
        (st.batches, st.tasks, st.deferred_detached)
    }

    fn run_scope_deferred(&self, token: Option<usize>, all: bool) {
        loop {
            let t = {
                let mut st = self.st.lock().unwrap();
                let idx = match token {
                    Some(tok) => st.scopes.iter().position(|s| s.token == tok),
                    None => {
                        if st.scopes.is_empty() {
                            None
                        } else {
                            Some(st.scopes.len() - 1)
                        }
                    }
                };
                match idx {
                    Some(i) if !st.scopes[i].deferred.is_empty() => {
                        let skip = !all && st.rng.chance(1, 2);
                        if skip {
                            None
                        } else {
                            let n = st.scopes[i].deferred.len();
                            let k = st.rng.below(n as u64) as usize;
                            st.decisions.write_u64(0x5c0 + k as u64);
                            Some(st.scopes[i].deferred.remove(k))
                        }
                    }
                    _ => None,
                }
            };
            match t {
                Some(t) => t(),
                None => break,
            }
        }
    }
}

unsafe impl VerifPool for PermutePool {
    fn is_multithreaded(&self) -> bool {
        true
    }

    fn spawn(&self, task: Task) {
        let run_now = {
            let mut st = self.st.lock().unwrap();
            let now = st.rng.chance(1, 2);
            st.decisions.write_u64(0xd0 + now as u64);
            st.tasks += 1;
            if !now {
                st.deferred_detached += 1;
            }
            now
        };
        if run_now {
            task();
        } else {
            self.st.lock().unwrap().detached.push_back(task);
        }
    }

    fn plan(&self, n: usize) -> Plan {
        // scope tasks of the innermost open scope may run before this batch
        self.run_scope_deferred(None, false);
        let mut st = self.st.lock().unwrap();
        st.batches += 1;
        st.tasks += n as u64;
        let maxw = st.max_workers as u64;
        let workers = (1 + st.rng.below(maxw) as usize).min(n);
        // contiguous ranges per worker (as rayon's splitter hands them out)
        let mut bounds: Vec<usize> = (0..workers - 1).map(|_| st.rng.below(n as u64 + 1) as usize).collect();
        bounds.sort_unstable();
        bounds.insert(0, 0);
        bounds.push(n);
        let mut cursors: Vec<(usize, usize)> = (0..workers).map(|w| (bounds[w], bounds[w + 1])).collect();
        let mut steps = Vec::with_capacity(n);
        let mut live: Vec<usize> = (0..workers).filter(|&w| cursors[w].0 < cursors[w].1).collect();
        while !live.is_empty() {
            let k = st.rng.below(live.len() as u64) as usize;
            let w = live[k];
            steps.push((w, cursors[w].0));
            st.decisions.write_u64(w as u64);
            cursors[w].0 += 1;
            if cursors[w].0 >= cursors[w].1 {
                live.swap_remove(k);
            }
        }
        st.decisions.write_u64(0xba7c0000 + workers as u64);
        Plan { workers, steps, concurrent: false }
    }

    fn run_batch(&self, tasks: Vec<Task>) {
        for t in tasks {
            t();
        }
    }

    fn scope_enter(&self) -> usize {
        let mut st = self.st.lock().unwrap();
        let token = st.next_token;
        st.next_token += 1;
        st.scopes.push(Scope { token, deferred: Vec::new() });
        token
    }

    fn scope_spawn(&self, token: usize, task: Task) {
        let run_now = {
            let mut st = self.st.lock().unwrap();
            st.tasks += 1;
            let now = st.rng.chance(1, 3);
            st.decisions.write_u64(0x5a0 + now as u64);
            now
        };
        if run_now {
            task();
        } else {
            let mut st = self.st.lock().unwrap();
            match st.scopes.iter_mut().find(|s| s.token == token) {
                Some(s) => s.deferred.push(task),
                None => {
                    drop(st);
                    task()
                }
            }
        }
    }

    fn scope_exit(&self, token: usize) {
        self.run_scope_deferred(Some(token), true);
        let mut st = self.st.lock().unwrap();
        if let Some(i) = st.scopes.iter().position(|s| s.token == token) {
            let s = st.scopes.remove(i);
            assert!(s.deferred.is_empty());
        }
    }
}

// ---------------------------------------------------------------------------------------------

#[cfg(feature = "sched")]
pub mod sched {
    use super::*;
    use shuttle::thread;

    struct SScope {
        token: usize,
        handles: Vec<thread::JoinHandle<()>>,
    }

    /// Every task is a shuttle thread. Detached tasks are joined by `join_detached`.
    pub struct ShuttlePool {
        st: Mutex<(usize, Vec<SScope>, Vec<thread::JoinHandle<()>>, u64)>,
        max_workers: usize,
    }

    impl std::fmt::Debug for ShuttlePool {
        fn fmt(&self, f: &mut std::fmt::Formatter<'_>) -> std::fmt::Result {
            write!(f, "ShuttlePool")
        }
    }

    impl ShuttlePool {
        pub fn new(max_workers: usize) -> std::sync::Arc<Self> {
            std::sync::Arc::new(Self { st: Mutex::new((1, Vec::new(), Vec::new(), 0)), max_workers })
        }

        pub fn join_detached(&self) {
            loop {
                let h = self.st.lock().unwrap().2.pop();
                match h {
                    Some(h) => {
                        let _ = h.join();
                    }
                    None => break,
                }
            }
        }

        pub fn tasks(&self) -> u64 {
            self.st.lock().unwrap().3
        }
    }

    fn spawn_task(task: Task) -> thread::JoinHandle<()> {
        thread::Builder::new().stack_size(4 << 20).spawn(move || task()).expect("shuttle spawn")
    }

    unsafe impl VerifPool for ShuttlePool {
        fn is_multithreaded(&self) -> bool {
            true
        }

        fn spawn(&self, task: Task) {
            let h = spawn_task(task);
            let mut st = self.st.lock().unwrap();
            st.2.push(h);
            st.3 += 1;
        }

        fn plan(&self, n: usize) -> Plan {
            // workload is a pure function of the scenario: fixed split, the scheduler owns the order
            let workers = self.max_workers.min(n).max(1);
            let steps = (0..n).map(|i| (i * workers / n, i)).collect();
            self.st.lock().unwrap().3 += workers as u64;
            Plan { workers, steps, concurrent: workers > 1 }
        }

        fn run_batch(&self, tasks: Vec<Task>) {
            let handles: Vec<_> = tasks.into_iter().map(spawn_task).collect();
            for h in handles {
                let _ = h.join();
            }
        }

        fn scope_enter(&self) -> usize {
            let mut st = self.st.lock().unwrap();
            let token = st.0;
            st.0 += 1;
            st.1.push(SScope { token, handles: Vec::new() });
            token
        }

        fn scope_spawn(&self, token: usize, task: Task) {
            let h = spawn_task(task);
            let mut st = self.st.lock().unwrap();
            st.3 += 1;
            if let Some(s) = st.1.iter_mut().find(|s| s.token == token) {
                s.handles.push(h);
            } else {
                st.2.push(h);
            }
        }

        fn scope_exit(&self, token: usize) {
            loop {
                let h = {
                    let mut st = self.st.lock().unwrap();
                    match st.1.iter_mut().find(|s| s.token == token) {
                        Some(s) => s.handles.pop(),
                        None => None,
                    }
                };
                match h {
                    Some(h) => {
                        let _ = h.join();
                    }
                    None => break,
                }
            }
            let mut st = self.st.lock().unwrap();
            st.1.retain(|s| s.token != token);
        }
    }

    /// A pool with a fixed number of worker threads and one shared queue, like rayon: a task that
    /// blocks (on a frame handle's condvar, say) keeps its worker; a worker waiting for its own
    /// fork-join tasks runs other queued tasks meanwhile (work stealing), a caller from outside the
    /// pool just waits. Which queued task a free worker takes is the scheduler's choice
    /// (`shuttle::rand`), so worker-exhaustion deadlocks are found and replayed deterministically.
    pub struct BoundedPool {
        inner: shuttle::sync::Mutex<BInner>,
        cv: shuttle::sync::Condvar,
        n: usize,
        me: std::sync::Weak<BoundedPool>,
    }

    struct BInner {
        queue: Vec<(u64, Task)>,
        pending: std::collections::HashMap<u64, usize>,
        next_group: u64,
        shutdown: bool,
        started: bool,
        workers: Vec<thread::ThreadId>,
        handles: Vec<thread::JoinHandle<()>>,
        tasks: u64,
    }

    impl std::fmt::Debug for BoundedPool {
        fn fmt(&self, f: &mut std::fmt::Formatter<'_>) -> std::fmt::Result {
            write!(f, "BoundedPool({})", self.n)
        }
    }

    /// Shuts the pool down when the scenario leaves scope (every path, including unwinding).
    pub struct BoundedGuard(pub std::sync::Arc<BoundedPool>);
    impl Drop for BoundedGuard {
        fn drop(&mut self) {
            self.0.shutdown();
        }
    }

    impl BoundedPool {
        pub fn new(n: usize) -> std::sync::Arc<Self> {
            std::sync::Arc::new_cyclic(|me| Self {
                inner: shuttle::sync::Mutex::new(BInner { queue: Vec::new(), pending: Default::default(), next_group: 1, shutdown: false, started: false, workers: Vec::new(), handles: Vec::new(), tasks: 0 }),
                cv: shuttle::sync::Condvar::new(),
                n: n.max(1),
                me: me.clone(),
            })
        }

        pub fn tasks(&self) -> u64 {
            self.inner.lock().unwrap().tasks
        }

        fn ensure_started(&self) {
            let mut g = self.inner.lock().unwrap();
            if g.started || g.shutdown {
                return;
            }
            g.started = true;
            drop(g);
            let mut hs = Vec::new();
            for _ in 0..self.n {
                let me = self.me.upgrade().expect("pool alive");
                hs.push(thread::Builder::new().stack_size(4 << 20).spawn(move || me.worker_loop()).expect("shuttle spawn"));
            }
            self.inner.lock().unwrap().handles.extend(hs);
        }

        fn pop_any(g: &mut BInner) -> Option<(u64, Task)> {
            if g.queue.is_empty() {
                return None;
            }
            use shuttle::rand::Rng;
            let i = shuttle::rand::thread_rng().gen_range(0..g.queue.len());
            Some(g.queue.remove(i))
        }

        fn complete(&self, group: u64) {
            let mut g = self.inner.lock().unwrap();
            if let Some(p) = g.pending.get_mut(&group) {
                *p -= 1;
            }
            drop(g);
            self.cv.notify_all();
        }

        fn worker_loop(&self) {
            let id = thread::current().id();
            self.inner.lock().unwrap().workers.push(id);
            loop {
                let mut g = self.inner.lock().unwrap();
                let job = loop {
                    if let Some(j) = Self::pop_any(&mut g) {
                        break Some(j);
                    }
                    if g.shutdown {
                        break None;
                    }
                    g = self.cv.wait(g).unwrap();
                };
                drop(g);
                match job {
                    Some((group, task)) => {
                        task();
                        self.complete(group);
                    }
                    None => return,
                }
            }
        }

        fn submit(&self, group: u64, tasks: Vec<Task>) {
            self.ensure_started();
            let mut g = self.inner.lock().unwrap();
            *g.pending.entry(group).or_insert(0) += tasks.len();
            g.tasks += tasks.len() as u64;
            for t in tasks {
                g.queue.push((group, t));
            }
            drop(g);
            self.cv.notify_all();
        }

        fn wait_group(&self, group: u64) {
            let id = thread::current().id();
            loop {
                let mut g = self.inner.lock().unwrap();
                if g.pending.get(&group).copied().unwrap_or(0) == 0 {
                    return;
                }
                if g.workers.contains(&id) {
                    if let Some((jg, task)) = Self::pop_any(&mut g) {
                        drop(g);
                        task();
                        self.complete(jg);
                        continue;
                    }
                }
                let _g = self.cv.wait(g).unwrap();
            }
        }

        fn new_group(&self) -> u64 {
            let mut g = self.inner.lock().unwrap();
            let id = g.next_group;
            g.next_group += 1;
            g.pending.insert(id, 0);
            id
        }

        /// Waits for the detached tasks (group 0).
        pub fn join_detached(&self) {
            self.wait_group(0);
        }

        pub fn shutdown(&self) {
            self.wait_group(0);
            let hs = {
                let mut g = self.inner.lock().unwrap();
                g.shutdown = true;
                std::mem::take(&mut g.handles)
            };
            self.cv.notify_all();
            for h in hs {
                let _ = h.join();
            }
        }
    }

    unsafe impl VerifPool for BoundedPool {
        fn is_multithreaded(&self) -> bool {
            true
        }

        fn spawn(&self, task: Task) {
            self.submit(0, vec![task]);
        }

        fn plan(&self, n: usize) -> Plan {
            let workers = self.n.min(n).max(1);
            let steps = (0..n).map(|i| (i * workers / n, i)).collect();
            Plan { workers, steps, concurrent: workers > 1 }
        }

        fn run_batch(&self, tasks: Vec<Task>) {
            let g = self.new_group();
            self.submit(g, tasks);
            self.wait_group(g);
        }

        fn scope_enter(&self) -> usize {
            self.new_group() as usize
        }

        fn scope_spawn(&self, token: usize, task: Task) {
            self.submit(token as u64, vec![task]);
        }

        fn scope_exit(&self, token: usize) {
            self.wait_group(token as u64);
        }

        fn run_scope_body(&self, body: Task) {
            // rayon: a scope entered from outside the pool is injected into it and the caller
            // blocks; any worker may run it — also one that is waiting for a scope of its own
            let id = thread::current().id();
            let is_worker = self.inner.lock().unwrap().workers.contains(&id);
            if is_worker {
                body();
            } else {
                let g = self.new_group();
                self.submit(g, vec![body]);
                self.wait_group(g);
            }
        }
    }
}
