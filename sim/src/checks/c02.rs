//! C02 — no memory-unsafe access is reachable from any input.
//!
//! The simulator supplies the executions (the C01 op-sequence scenarios, with the configuration
//! knobs C02 names: narrow/wide buffers, pool on/off); a detector is the oracle:
//! * ASan build (`-Zsanitizer=address`, optimised, overflow wraps as in production, real SIMD
//!   paths selected by the running CPU): a report aborts the worker, the supervisor attributes it
//!   to the run in flight and confirms it in a fresh process;
//! * Miri (seeded preemptive scheduler + data-race detector) on small scenarios: `jxlsim miri-run`.
//! Panics and decode errors are *not* C02 violations (C01 owns them) and are swallowed here.
use crate::checks::c01;
use crate::harness::{Stats, Tier, Violation};
use crate::rng::{Rng, derive};
use serde::{Deserialize, Serialize};

#[derive(Clone, Debug, Serialize, Deserialize)]
pub struct Scenario {
    pub inner: c01::Scenario,
}

pub fn generate(seed: u64, tier: Tier) -> Scenario {
    let mut rng = Rng::new(derive(seed, 2, 0));
    if rng.chance(1, 3) {
        if let Some(sc) = generate_simd_sweep(seed) {
            return sc;
        }
    }
    let mut inner = c01::generate(seed ^ 0xC02, tier);
    inner.pool_threads = *rng.pick(&[0usize, 0, 2, 3]);
    inner.force_wide = rng.chance(1, 3);
    // ample budget in half of the runs so that renders complete and the SIMD kernels run
    if rng.chance(1, 2) {
        inner.alloc_limit = 128 << 20;
    }
    Scenario { inner }
}

/// "On every SIMD code path the running CPU selects": the vector kernels (squeeze, RCT, palette,
/// upsampling, colour conversion, filters) have scalar tails whose length depends on the width
/// modulo the lane count, so this family sweeps the width over every residue (9..=160) with at
/// least 8 rows and at least one transform, mostly with 16-bit buffers, and renders everything.
pub fn generate_simd_sweep(seed: u64) -> Option<Scenario> {
    use crate::jxlgen::random::{GenConfig, random_program};
    let mut rng = Rng::new(derive(seed, 23, 0));
    let cfg = GenConfig { max_dim: 160, max_frames: 2, max_pixels: 160 * 40, multi_group: false, safe: true, simd_sweep: true, vardct: rng.chance(1, 5), ..GenConfig::small() }.swarm(&mut rng);
    let cfg = GenConfig { transforms: true, squeeze: true, ..cfg };
    let prog = random_program(&mut rng, &cfg);
    let (bytes, _map) = prog.encode().ok()?;
    let len = bytes.len();
    let mut steps = vec![c01::Step::Deliver(len), c01::Step::Op(c01::Op::TryInit), c01::Step::Op(c01::Op::Finalize), c01::Step::Op(c01::Op::RenderAll)];
    if rng.chance(1, 3) {
        steps.push(c01::Step::Op(c01::Op::RenderAccessors(0, *rng.pick(&[1usize, 3, 7]))));
    }
    let inner = c01::Scenario {
        bytes,
        origin: format!("jxlgen-simd:{}", crate::checks::common::program_shape(&prog)),
        faults: vec![],
        delivery: c01::Delivery::Feed,
        steps,
        alloc_limit: 128 << 20,
        keep_feeding_after_error: false,
        dim_cap: 65536,
        pool_threads: *rng.pick(&[0usize, 0, 2]),
        force_wide: rng.chance(1, 4),
    };
    Some(Scenario { inner })
}

/// Small scenarios for the Miri leg (Miri is ~1000x slower than native): tiny valid programs that
/// reach the `unsafe` regions C02 names (subgrid split/merge/into_groups at odd sizes, bitstream
/// refill at buffer tails, squeeze / RCT / palette at widths 1..24, parallel tasks on raw-pointer
/// subgrids with a real 2-thread pool), unfaulted or with one storage fault.
pub fn generate_small(seed: u64) -> Option<Scenario> {
    use crate::jxlgen::random::{GenConfig, random_program};
    use crate::simio::StorageFault;
    let mut rng = Rng::new(derive(seed, 22, 0));
    // no VarDCT under Miri: computing the default dequantisation matrices (up to 256x256) alone takes
    // more than 15 minutes there; VarDCT is covered by the ASan and MSan legs
    let _ = rng.chance(1, 2);
    let cfg = GenConfig { max_dim: 20, max_frames: 2, max_pixels: 20 * 16, multi_group: false, noise: false, safe: true, vardct: false, ..GenConfig::small() }.swarm(&mut rng);
    let prog = random_program(&mut rng, &cfg);
    let (mut bytes, map) = prog.encode().ok()?;
    if bytes.len() > 2500 {
        return None;
    }
    let mut faults = Vec::new();
    if rng.chance(1, 3) {
        let regions: Vec<(usize, usize)> = map.frames.iter().flat_map(|f| f.sections.iter().map(|&(o, s)| (o, o + s))).collect();
        let f = StorageFault::random(&mut rng, bytes.len(), &regions);
        if f.apply(&mut bytes) {
            faults.push(f.kind().to_string());
        }
    }
    let len = bytes.len();
    let cut = rng.below(len as u64 + 1) as usize;
    let mut steps = vec![c01::Step::Deliver(cut), c01::Step::Op(c01::Op::TryInit)];
    if rng.chance(1, 2) {
        steps.push(c01::Step::Op(c01::Op::RenderLoading));
    }
    steps.push(c01::Step::Deliver(len - cut));
    steps.push(c01::Step::Op(c01::Op::TryInit));
    steps.push(c01::Step::Op(c01::Op::Finalize));
    steps.push(c01::Step::Op(c01::Op::RenderAll));
    steps.push(c01::Step::Op(c01::Op::RenderAccessors(0, *rng.pick(&[1usize, 3, 7]))));
    if rng.chance(1, 2) {
        steps.push(c01::Step::Op(c01::Op::SetRegion(rng.below(8) as u32, rng.below(8) as u32, 1 + rng.below(8) as u32, 1 + rng.below(8) as u32)));
        steps.push(c01::Step::Op(c01::Op::Render(0)));
    }
    let inner = c01::Scenario {
        bytes,
        origin: format!("jxlgen-small:{}", crate::checks::common::program_shape(&prog)),
        faults,
        delivery: c01::Delivery::Feed,
        steps,
        alloc_limit: 64 << 20,
        keep_feeding_after_error: false,
        dim_cap: 65536,
        pool_threads: if rng.chance(1, 2) { 2 } else { 0 },
        force_wide: rng.chance(1, 3),
    };
    Some(Scenario { inner })
}

pub fn digest(sc: &Scenario) -> u64 {
    c01::digest(&sc.inner) ^ sc.inner.pool_threads as u64 ^ ((sc.inner.force_wide as u64) << 8)
}

pub fn execute(seed: u64, sc: &Scenario, stats: &mut Stats) -> Result<(), Violation> {
    // run the scenario; whatever C01 would say about it is not C02's business
    let r = std::panic::catch_unwind(std::panic::AssertUnwindSafe(|| {
        let mut local = Stats::default();
        let _ = c01::execute(seed, &sc.inner, &mut local);
        local
    }));
    stats.evaluations += 1;
    let pool_panics = crate::harness::POOL_TASK_PANICS.swap(0, std::sync::atomic::Ordering::Relaxed);
    if pool_panics > 0 {
        stats.probe("decoder_panicked_in_pool_task(ignored_for_C02)");
    }
    match r {
        Ok(local) => {
            stats.steps += local.steps;
            for (k, v) in local.faults_fired {
                *stats.faults_fired.entry(k).or_insert(0) += v;
            }
            for (k, v) in local.probes {
                if k.starts_with("op:render") || k.starts_with("reached") {
                    *stats.probes.entry(k).or_insert(0) += v;
                }
            }
            stats.probe("completed_without_panic");
        }
        Err(_) => stats.probe("decoder_panicked(ignored_for_C02)"),
    }
    let origin = sc.inner.origin.split(':').next().unwrap_or("").to_string();
    stats.distinct_sig(&[&origin, &sc.inner.faults.len().min(3), &sc.inner.pool_threads, &sc.inner.force_wide, &(sc.inner.alloc_limit < (1 << 20)), &crate::harness::hash_bytes(&sc.inner.bytes)]);
    stats.sample(serde_json::json!({"origin": sc.inner.origin, "len": sc.inner.bytes.len(), "faults": sc.inner.faults, "pool_threads": sc.inner.pool_threads, "force_wide": sc.inner.force_wide, "steps": sc.inner.steps.len()}));
    Ok(())
}

pub fn minimise(sc: &Scenario, _still: &dyn Fn(&Scenario) -> bool) -> Scenario {
    sc.clone()
}
