//! Seeded random `Program`s, swarm style: each run first draws which features are enabled.
use super::entropy::Coder;
use super::*;
use crate::bits::pack_signed;
use crate::rng::Rng;

#[derive(Clone, Debug)]
pub struct GenConfig {
    pub max_dim: u32,
    pub max_frames: usize,
    pub animation: bool,
    pub extra_channels: bool,
    pub transforms: bool,
    pub squeeze: bool,
    pub filters: bool,
    pub noise: bool,
    pub upsampling: bool,
    pub multi_group: bool,
    pub orientation: bool,
    pub crops: bool,
    pub blending: bool,
    pub passes: bool,
    pub toc_permutation: bool,
    pub lz77: bool,
    pub preview: bool,
    /// XYB image with VarDCT frames (self-consistency oracles only)
    pub vardct: bool,
    /// force at least this many frames
    pub min_frames: usize,
    pub max_pixels: u64,
    /// avoid constructs that hit known decoder defects (see known_findings.json); C01/C05 explore them
    pub safe: bool,
    /// SIMD-tail sweep: width uniform over every residue of the vector lane counts, at least 8
    /// rows, always at least one transform (squeeze-heavy), 16-bit buffers likely
    pub simd_sweep: bool,
    /// non-default colour encodings in the image header: enum variants and embedded ICC profiles
    pub colour: bool,
    /// patches and splines
    pub features: bool,
    /// splines (needs `features`)
    pub splines: bool,
    /// LF frames feeding VarDCT frames (needs `vardct`)
    pub lf_frames: bool,
}

impl GenConfig {
    pub fn small() -> Self {
        Self {
            max_dim: 96,
            max_frames: 3,
            min_frames: 1,
            animation: true,
            extra_channels: true,
            transforms: true,
            squeeze: true,
            filters: true,
            noise: true,
            upsampling: true,
            multi_group: false,
            orientation: true,
            crops: true,
            blending: true,
            passes: true,
            toc_permutation: true,
            lz77: true,
            preview: true,
            vardct: false,
            max_pixels: 96 * 96,
            safe: true,
            simd_sweep: false,
            colour: true,
            features: true,
            splines: true,
            lf_frames: true,
        }
    }

    pub fn medium() -> Self {
        Self { max_dim: 400, multi_group: true, max_frames: 4, max_pixels: 300 * 300, ..Self::small() }
    }

    /// Swarm: switch a random subset of features off.
    pub fn swarm(mut self, rng: &mut Rng) -> Self {
        let mut off = |p: u64| rng.chance(p, 100);
        if off(35) { self.animation = false; }
        if off(30) { self.extra_channels = false; }
        if off(40) { self.transforms = false; }
        if off(50) { self.squeeze = false; }
        if off(50) { self.filters = false; }
        if off(70) { self.noise = false; }
        if off(55) { self.upsampling = false; }
        if off(50) { self.orientation = false; }
        if off(30) { self.crops = false; }
        if off(25) { self.blending = false; }
        if off(50) { self.passes = false; }
        if off(50) { self.toc_permutation = false; }
        if off(50) { self.lz77 = false; }
        if off(40) { self.preview = false; }
        self
    }
}

fn pick_dim(rng: &mut Rng, max: u32, multi_group: bool) -> u32 {
    let small = [1u32, 2, 3, 4, 5, 7, 8, 9, 15, 16, 17, 23, 31, 32, 33, 47, 63, 64, 65, 70];
    let edges = [127u32, 128, 129, 130, 255, 256, 257, 258];
    let v = match rng.below(10) {
        0..=4 => *rng.pick(&small),
        5 | 6 => rng.range(1, max.min(96) as i64) as u32,
        7 | 8 if multi_group => *rng.pick(&edges),
        _ => rng.range(1, max as i64) as u32,
    };
    v.clamp(1, max)
}

fn random_tree(rng: &mut Rng, bits: u32, dim: (u32, u32), max_nodes: usize) -> TreeSpec {
    let shape = rng.below(10);
    let mut nodes = Vec::new();
    let leaf = |rng: &mut Rng| {
        let predictor = match rng.below(6) {
            0 => 0,
            1 => 5,
            2 => 6,
            _ => rng.below(14) as u32,
        };
        let offset = if rng.chance(1, 4) { rng.range(-3, 3) as i32 } else { 0 };
        let (mul_log, mul_bits) = if rng.chance(1, 5) { (rng.below(3) as u32, rng.below(3) as u32) } else { (0, 0) };
        TreeNode::Leaf { predictor, offset, mul_log, mul_bits }
    };
    if shape < 3 || max_nodes < 3 {
        nodes.push(leaf(rng));
        return TreeSpec { nodes };
    }
    if shape == 3 {
        // property-9 "gradient table" shape: a chain of decisions on one property with equal leaves
        let prop = if rng.chance(2, 3) { 9 } else { *rng.pick(&[4u32, 5, 6, 7, 8, 10, 15]) };
        let k = rng.usize_in(3, 6);
        let predictor = if rng.chance(2, 3) { 5 } else { rng.below(14) as u32 };
        let mut vals: Vec<i32> = (0..k).map(|_| rng.range(-40, 40) as i32).collect();
        vals.sort_unstable();
        vals.dedup();
        // BFS of a right-leaning chain: decision(v_max): left = leaf (> v), right = next decision
        // nodes in BFS order: D0, L, D1, L, D2, ... , L, L
        let mut order = Vec::new();
        for (i, v) in vals.iter().rev().enumerate() {
            order.push(TreeNode::Decision { prop, value: *v });
            let _ = i;
            // children are appended in BFS order: [left leaf, right subtree]
        }
        // Build properly with explicit BFS: each decision has left=leaf, right=decision|leaf.
        let n = order.len();
        let mut bfs = Vec::new();
        bfs.push(order[0].clone());
        for i in 0..n {
            bfs.push(TreeNode::Leaf { predictor, offset: 0, mul_log: 0, mul_bits: 0 });
            if i + 1 < n {
                bfs.push(order[i + 1].clone());
            } else {
                bfs.push(TreeNode::Leaf { predictor, offset: 0, mul_log: 0, mul_bits: 0 });
            }
        }
        return TreeSpec { nodes: bfs };
    }
    // generic: BFS growth
    let target = rng.usize_in(3, max_nodes.max(3));
    let mut pending = 1usize; // nodes still to emit
    let mut emitted = 0usize;
    while pending > 0 {
        pending -= 1;
        let budget_left = target.saturating_sub(emitted + pending + 1);
        let make_decision = budget_left >= 2 && rng.chance(3, 5);
        if make_decision {
            let prop = match rng.below(12) {
                0 => 0,
                1 => 1,
                2 => 2,
                3 => 3,
                10 => 16 + rng.below(8) as u32,
                11 => 15,
                _ => rng.range(4, 14) as u32,
            };
            let maxv = 1i64 << bits.min(14);
            let value = match prop {
                0 => rng.range(-1, 4),
                1 => rng.range(0, 40),
                2 => rng.range(0, dim.1 as i64),
                3 => rng.range(0, dim.0 as i64),
                4 | 5 => rng.range(0, maxv),
                _ => rng.range(-maxv / 2, maxv / 2),
            } as i32;
            nodes.push(TreeNode::Decision { prop, value });
            pending += 2;
        } else {
            nodes.push(leaf(rng));
        }
        emitted += 1;
    }
    TreeSpec { nodes }
}

fn tree_max_token(t: &TreeSpec) -> u32 {
    let mut m = 1;
    for n in &t.nodes {
        match n {
            TreeNode::Decision { prop, value } => {
                m = m.max(prop + 1).max(pack_signed(*value));
            }
            TreeNode::Leaf { predictor, offset, mul_log, mul_bits } => {
                m = m.max(*predictor).max(pack_signed(*offset)).max(*mul_log).max(*mul_bits);
            }
        }
    }
    m
}

fn random_ma(rng: &mut Rng, bits: u32, dim: (u32, u32), known: bool, max_value: u32, lz77: bool) -> MaSpec {
    let tree = if known { TreeSpec::single(0) } else { random_tree(rng, bits, dim, 15) };
    let tree_coder = Coder::random(rng, 6, tree_max_token(&tree), false);
    let coder = if !known && rng.chance(1, 12) {
        Coder::all_zero(tree.leaves())
    } else {
        Coder::random(rng, tree.leaves(), max_value, lz77 && !known)
    };
    MaSpec { tree, tree_coder, coder }
}

fn random_blend(rng: &mut Rng, cfg: &GenConfig, extra: &[EcSpec]) -> BlendSpec {
    let alpha_idx: Vec<u32> =
        extra.iter().enumerate().filter(|(_, e)| matches!(e.kind, EcKind::Alpha { .. })).map(|(i, _)| i as u32).collect();
    let mut modes = vec![BlendMode::Replace, BlendMode::Replace, BlendMode::Add, BlendMode::Mul];
    if extra.is_empty() || !alpha_idx.is_empty() {
        modes.push(BlendMode::Blend);
        modes.push(BlendMode::Blend);
        modes.push(BlendMode::MulAdd);
    }
    let mode = if cfg.blending { *rng.pick(&modes) } else { BlendMode::Replace };
    BlendSpec {
        mode,
        alpha_channel: if alpha_idx.is_empty() { 0 } else { *rng.pick(&alpha_idx) },
        clamp: rng.chance(1, 2),
        source: rng.below(4) as u32,
    }
}

pub fn random_program(rng: &mut Rng, cfg: &GenConfig) -> Program {
    // --- image level
    let mut width = pick_dim(rng, cfg.max_dim, cfg.multi_group);
    let mut height = pick_dim(rng, cfg.max_dim, cfg.multi_group);
    if cfg.simd_sweep {
        width = rng.range(9, cfg.max_dim as i64) as u32;
        height = rng.range(8, 40.min(cfg.max_dim) as i64) as u32;
    }
    while width as u64 * height as u64 > cfg.max_pixels {
        if width > height { width = (width / 2).max(1) } else { height = (height / 2).max(1) }
    }
    let size_form = match rng.below(4) {
        0 if width % 8 == 0 && height % 8 == 0 => SizeForm::Div8,
        1 => {
            let r = rng.range(1, 7) as u32;
            let w = ratio_width(r, height);
            if w >= 1 && w <= cfg.max_dim && (w as u64 * height as u64) <= cfg.max_pixels {
                width = w;
                SizeForm::Ratio(r)
            } else {
                SizeForm::Explicit
            }
        }
        _ => SizeForm::Explicit,
    };
    let bit_depth = match rng.below(10) {
        0..=5 => 8,
        6 => 10,
        7 => 12,
        8 => rng.range(1, 7) as u32,
        _ => rng.range(9, 16) as u32,
    };
    let gray = rng.chance(1, 4);
    let orientation = if cfg.orientation && rng.chance(1, 2) { rng.range(1, 8) as u32 } else { 1 };
    let mut extra = Vec::new();
    if cfg.extra_channels {
        let n = match rng.below(8) {
            0..=2 => 0,
            3 | 4 => 1,
            5 | 6 => 2,
            _ => rng.usize_in(3, 4),
        };
        for i in 0..n {
            let kind = match rng.below(8) {
                0..=3 => EcKind::Alpha { associated: rng.chance(1, 2) },
                4 => EcKind::Depth,
                5 => EcKind::Spot([0.5, 0.25, 1.0, 0.5]),
                6 => EcKind::Black,
                _ => EcKind::Optional,
            };
            let default_form = matches!(kind, EcKind::Alpha { associated: false }) && rng.chance(1, 3);
            let (bits, dim_shift, name) = if default_form {
                (8, 0, String::new())
            } else {
                (
                    if rng.chance(2, 3) { bit_depth } else { rng.range(1, 16) as u32 },
                    if cfg.upsampling && rng.chance(1, 4) && !(cfg.safe && matches!(kind, EcKind::Alpha { .. })) { rng.below(4) as u32 } else { 0 },
                    if rng.chance(1, 3) { format!("ec{i}") } else { String::new() },
                )
            };
            extra.push(EcSpec { kind, bits, dim_shift, name, default_form });
        }
    }
    // frames
    let nframes = rng.usize_in(cfg.min_frames.max(1), cfg.max_frames.max(cfg.min_frames).max(1));
    let animation = if cfg.animation && nframes > 1 && rng.chance(3, 5) {
        Some(AnimSpec {
            tps_num: *rng.pick(&[100u32, 1000, 24, 30]),
            tps_den: *rng.pick(&[1u32, 1001, 2]),
            loops: rng.below(3) as u32,
            timecodes: rng.chance(1, 4),
        })
    } else {
        None
    };
    let max_bits = bit_depth.max(extra.iter().map(|e| e.bits).max().unwrap_or(0));
    let modular_16bit = if max_bits <= 12 { !rng.chance(1, 6) } else { false };

    let mut prog = Program {
        width,
        height,
        size_form,
        orientation,
        bit_depth,
        modular_16bit,
        gray,
        extra,
        animation,
        intrinsic_size: if rng.chance(1, 10) { Some((rng.range(1, 500) as u32, rng.range(1, 500) as u32)) } else { None },
        extra_fields: rng.chance(1, 4),
        cw_mask: 0,
        cw_seed: rng.next_u64(),
        frames: Vec::new(),
        preview: None,
        xyb: false,
        colour: Default::default(),
    };

    if cfg.vardct {
        prog.xyb = true;
        prog.gray = false;
    }
    if cfg.colour {
        // drawn from a generator of its own so that the rest of the program is what it was
        // before colour variants existed
        let mut crng = Rng::new(prog.cw_seed ^ 0xC010_0000_0001);
        prog.colour = match crng.below(20) {
            0..=10 => super::icc::ColourSpec::Default,
            11..=15 => {
                let mut e = super::icc::EnumSpec::random(&mut crng, false);
                if cfg.safe && e.tf == 2 {
                    e.tf = 13; // rendered_icc() panics for the Unknown transfer function (known finding F9)
                }
                super::icc::ColourSpec::Enum(e)
            }
            _ => super::icc::ColourSpec::Icc(super::icc::IccSpec::random(&mut crng)),
        };
    }
    for fi in 0..nframes {
        let is_last = fi + 1 == nframes;
        let mut f = random_frame(rng, cfg, &prog, is_last);
        if prog.xyb && rng.chance(3, 4) {
            f.vardct = Some(super::vardct::VarDctSpec::random(rng));
            f.group_size_shift = 1;
            f.modular.transforms.clear();
            if cfg.safe {
                // a VarDCT frame lying wholly outside the canvas panics in blend (known finding F17)
                if let Some((x0, y0, w, h)) = f.crop {
                    let outside = x0 as i64 >= prog.width as i64 || y0 as i64 >= prog.height as i64 || x0 as i64 + w as i64 <= 0 || y0 as i64 + h as i64 <= 0;
                    if outside {
                        f.crop = None;
                    }
                }
            }
            // noise on VarDCT frames is fine; the safe rule about 1-px group rows uses 256-px groups
            if cfg.safe {
                let fh = prog.frame_dims(&f).1;
                if fh > 256 && fh % 256 == 1 {
                    f.noise = None;
                }
            }
        }
        if cfg.lf_frames && f.vardct.is_some() && prog.extra.is_empty() && f.crop.is_none() && f.upsampling == 1 {
            // own generator again; the LF frame is a Modular XYB frame of 1/8 size placed right before
            let mut lrng = Rng::new(f.modular.data_seed ^ 0x1FF2_0000_0001);
            if lrng.chance(1, 4) {
                let mut lf = random_frame(&mut lrng, &GenConfig { crops: false, upsampling: false, passes: false, noise: false, filters: false, transforms: false, ..cfg.clone() }, &prog, false);
                lf.kind = FrameKind::LfFrame;
                lf.crop = None;
                lf.upsampling = 1;
                lf.is_last = false;
                lf.duration = 0;
                lf.save_as_reference = 0;
                lf.noise = None;
                lf.gab = GabSpec::Off;
                lf.epf = None;
                lf.vardct = None;
                lf.modular.transforms.clear();
                prog.frames.push(lf);
                f.vardct.as_mut().unwrap().use_lf_frame = true;
            }
        }
        if cfg.features {
            // drawn from a generator of its own (seeded by the frame) so that everything else in
            // the program is what it was before patches and splines existed
            let mut frng = Rng::new(f.modular.data_seed ^ 0xFEA7_0000_0001);
            let mut slots: [Option<(u32, u32)>; 4] = [None; 4];
            for p in &prog.frames {
                if Program::frame_can_reference(p) {
                    // safe: only frames covering the canvas exactly are patch sources (a cropped source
                    // frame makes the decoder cut rectangles outside its grids: C01 explores that)
                    slots[p.save_as_reference as usize] = if cfg.safe && p.crop.is_some() { None } else { Some(prog.frame_dims(p)) };
                }
            }
            let dims = prog.frame_dims(&f);
            // safe: no patches on frames whose extra channels are upsampled differently from colour
            // (upsample_nonseparable asserts in subgrid for such frames when cropped: see F22)
            let ec_same = f.ec_upsampling.iter().all(|&u| u == f.upsampling);
            // ... and none on frames reaching outside the canvas (blend_single indexes out of range)
            let inside = match f.crop {
                None => true,
                Some((x0, y0, w, h)) => x0 >= 0 && y0 >= 0 && x0 as i64 + w as i64 <= prog.width as i64 && y0 as i64 + h as i64 <= prog.height as i64,
            };
            if frng.chance(1, 6) && (!cfg.safe || (ec_same && inside)) {
                // patches are applied before the frame is upsampled: positions are in colour-sample units
                let pdims = if cfg.safe { prog.color_sample_dims(&f) } else { dims };
                f.patches = super::features::PatchSpec::random(&mut frng, &prog, pdims, &slots, cfg.safe);
            }
            if frng.chance(1, 8) && cfg.splines {
                f.splines = super::features::SplineSpec::random(&mut frng, dims);
            }
        }
        prog.frames.push(f);
    }
    if cfg.preview && rng.chance(1, 6) {
        let mut pf = random_frame(rng, cfg, &prog, true);
        pf.kind = FrameKind::Regular;
        pf.crop = None;
        pf.is_last = true;
        pf.duration = 0;
        prog.preview = Some(Box::new(pf));
    }
    if cfg.upsampling && prog.frames.iter().any(|f| f.upsampling > 1 || f.ec_upsampling.iter().any(|&u| u > 1)) && rng.chance(1, 4) {
        prog.cw_mask = rng.range(1, 7) as u32;
    }
    prog.fix_transforms();
    if !cfg.safe {
        // index-valued header fields pointing past what exists (own generator: see `colour`)
        let mut hrng = Rng::new(prog.cw_seed ^ 0x1DE7_0000_0001);
        if hrng.chance(1, 5) {
            let n_extra = prog.extra.len() as u32;
            let fi = hrng.below(prog.frames.len() as u64) as usize;
            let f = &mut prog.frames[fi];
            let bad = n_extra + hrng.below(3) as u32;
            match hrng.below(4) {
                0 => {
                    f.blend.alpha_channel = bad;
                    if hrng.chance(1, 2) {
                        f.blend.mode = *hrng.pick(&[BlendMode::Blend, BlendMode::MulAdd]);
                    }
                }
                1 | 2 if !f.ec_blend.is_empty() => {
                    let i = hrng.below(f.ec_blend.len() as u64) as usize;
                    f.ec_blend[i].alpha_channel = bad;
                    f.ec_blend[i].mode = *hrng.pick(&[BlendMode::Blend, BlendMode::MulAdd]);
                    if hrng.chance(1, 2) {
                        // ... while colour itself does not use alpha
                        f.blend.mode = *hrng.pick(&[BlendMode::Add, BlendMode::Mul, BlendMode::Replace]);
                    }
                }
                _ => {
                    if let Some(p) = f.patches.as_mut() {
                        for r in &mut p.refs {
                            for t in &mut r.targets {
                                for b in &mut t.2 {
                                    if hrng.chance(1, 2) {
                                        b.alpha = bad;
                                        b.mode = 4 + hrng.below(4) as u32;
                                    }
                                }
                            }
                        }
                    }
                }
            }
        }
    }
    prog
}

pub fn random_frame(rng: &mut Rng, cfg: &GenConfig, prog: &Program, is_last: bool) -> FrameSpec {
    let kind = if is_last {
        if rng.chance(1, 8) { FrameKind::SkipProgressive } else { FrameKind::Regular }
    } else {
        match rng.below(10) {
            0 | 1 => FrameKind::ReferenceOnly,
            2 => FrameKind::SkipProgressive,
            _ => FrameKind::Regular,
        }
    };
    let (iw, ih) = (prog.width as i64, prog.height as i64);
    let crop = if cfg.crops && kind != FrameKind::ReferenceOnly && rng.chance(2, 5) {
        let cw = rng.range(1, (iw * 3 / 2).max(1)) as u32;
        let ch = rng.range(1, (ih * 3 / 2).max(1)) as u32;
        let (x0, y0) = match rng.below(6) {
            0 => (0, 0),
            1 => (-(cw as i64) - rng.range(0, 3), rng.range(-ih, ih)), // wholly outside (left)
            2 => (iw + rng.range(0, 3), ih + rng.range(0, 3)),         // wholly outside (right/bottom)
            _ => (rng.range(-(cw as i64) / 2 - 1, iw), rng.range(-(ch as i64) / 2 - 1, ih)),
        };
        Some((x0 as i32, y0 as i32, cw, ch))
    } else {
        None
    };
    let (fw, fh) = match crop {
        Some((_, _, w, h)) => (w, h),
        None => (prog.width, prog.height),
    };
    let upsampling = if cfg.upsampling && rng.chance(1, 4) { *rng.pick(&[2u32, 2, 4, 8]) } else { 1 };
    let cshift = upsampling.trailing_zeros();
    let group_size_shift = if cfg.multi_group { *rng.pick(&[0u32, 0, 0, 1, 2, 3]) } else { rng.below(4) as u32 };
    let ec_upsampling: Vec<u32> = prog
        .extra
        .iter()
        .map(|ec| {
            // need ec_shift + dim_shift >= cshift, <= 6, and actual <= 7 + gss
            let min_s = cshift.saturating_sub(ec.dim_shift);
            if cfg.safe && matches!(ec.kind, EcKind::Alpha { .. }) {
                return 1u32 << min_s.min(3);
            }
            let max_s = 3u32.min(6 - ec.dim_shift);
            let s = if max_s <= min_s { min_s } else if cfg.upsampling && rng.chance(1, 4) { rng.range(min_s as i64, max_s as i64) as u32 } else { min_s };
            1u32 << s.min(3)
        })
        .collect();
    let passes = if kind != FrameKind::ReferenceOnly && cfg.passes && rng.chance(1, 4) {
        let num_passes = rng.range(2, 4) as u32;
        let num_ds = rng.below(num_passes.min(3) as u64) as usize;
        let ds_choices: [&[u32]; 4] = [&[], &[2], &[4, 2], &[8, 4, 2]];
        let mut downsample: Vec<u32> = match num_ds {
            0 => vec![],
            1 => vec![*rng.pick(&[2u32, 4, 8])],
            n => ds_choices[n.min(3)].to_vec(),
        };
        downsample.truncate(num_ds);
        let mut last_pass: Vec<u32> = (0..num_ds as u32).collect();
        if num_ds == 1 && num_passes > 2 && rng.chance(1, 2) {
            last_pass[0] = 1;
        }
        PassesSpec { num_passes, shift: (0..num_passes - 1).map(|_| rng.below(4) as u32).collect(), downsample, last_pass }
    } else {
        PassesSpec { num_passes: 1, shift: vec![], downsample: vec![], last_pass: vec![] }
    };
    let duration = if prog.animation.is_some() && Program::frame_is_normal_kind(kind) {
        match rng.below(5) {
            0 | 1 => 0,
            2 => 1,
            _ => rng.range(1, 200) as u32,
        }
    } else {
        0
    };
    let blend = random_blend(rng, cfg, &prog.extra);
    let ec_blend = prog.extra.iter().map(|_| random_blend(rng, cfg, &prog.extra)).collect();

    // modular
    let (cw, ch) = (fw.div_ceil(upsampling), fh.div_ceil(upsampling));
    let known = rng.chance(3, 10);
    let max_bits = prog.bit_depth.max(prog.extra.iter().map(|e| e.bits).max().unwrap_or(0)).min(15);
    let max_residual = if known {
        4 << max_bits
    } else {
        match rng.below(4) {
            0 => 2,
            1 => 8,
            2 => 40,
            _ => 1 << max_bits.min(10),
        }
    };
    let has_global = rng.chance(7, 10);
    let global = has_global.then(|| random_ma(rng, max_bits, (cw, ch), known, max_residual, cfg.lz77));
    let local = random_ma(rng, max_bits, (cw, ch), known, max_residual, cfg.lz77);
    let mut transforms = Vec::new();
    if cfg.transforms {
        let base = prog.base_channels_dims(cw, ch, upsampling, &ec_upsampling);
        let nch = base.len() as u32;
        let n = match rng.below(6) {
            0..=2 => cfg.simd_sweep as u32,
            3 | 4 => 1,
            _ => 2,
        };
        for _ in 0..n {
            let t = match if cfg.simd_sweep && rng.chance(1, 2) { 3 } else { rng.below(5) } {
                0 | 1 if nch >= 3 => TransformSpec::Rct { begin_c: rng.below((nch - 2) as u64) as u32, rct_type: rng.below(42) as u32 },
                2 => {
                    let num_c = if nch >= 3 && rng.chance(1, 2) { 3 } else { 1 };
                    TransformSpec::Palette {
                        begin_c: rng.below((nch - num_c + 1) as u64) as u32,
                        num_c,
                        nb_colours: rng.range(0, 20) as u32,
                        nb_deltas: if rng.chance(1, 3) { rng.range(0, 5) as u32 } else { 0 },
                        d_pred: rng.below(14) as u32,
                    }
                }
                3 | 4 if cfg.squeeze => {
                    if rng.chance(1, 2) {
                        TransformSpec::Squeeze { steps: vec![] }
                    } else {
                        let k = rng.usize_in(1, 3);
                        TransformSpec::Squeeze {
                            steps: (0..k)
                                .map(|_| {
                                    let b = rng.below(nch as u64) as u32;
                                    SqueezeStep { horizontal: rng.chance(1, 2), in_place: rng.chance(1, 2), begin_c: b, num_c: rng.range(1, (nch - b) as i64) as u32 }
                                })
                                .collect(),
                        }
                    }
                }
                _ => continue,
            };
            let mut cand = transforms.clone();
            cand.push(t);
            if let Some((chs, nb_meta)) = apply_transforms(&base, &cand) {
                // keep only if the resulting layout is representable
                let probe = FrameSpec::probe(kind, crop, upsampling, ec_upsampling.clone(), group_size_shift, passes.clone());
                if chs.iter().all(|c| c.w > 0 && c.h > 0) && section_layout(prog, &probe, &chs, nb_meta).is_some() {
                    transforms = cand;
                }
            }
        }
    }
    let modular = ModularSpec {
        groups_use_global: has_global && rng.chance(7, 10),
        gmodular_use_global: has_global && rng.chance(8, 10),
        global,
        local,
        wp_custom: if rng.chance(15, 100) {
            let mut p = [0u32; 11];
            for (i, v) in p.iter_mut().enumerate() {
                *v = rng.below(if i < 7 { 32 } else { 16 }) as u32;
            }
            Some(p)
        } else {
            None
        },
        transforms,
        mode: if known { SampleMode::Known } else { SampleMode::RandomResiduals },
        data_seed: rng.next_u64(),
        zero_bias: *rng.pick(&[0u32, 30, 70, 95]),
        max_residual,
    };

    FrameSpec {
        kind,
        crop,
        upsampling,
        ec_upsampling,
        group_size_shift,
        passes,
        blend,
        ec_blend,
        duration,
        timecode: rng.next_u32(),
        is_last,
        save_as_reference: if is_last { 0 } else { rng.below(4) as u32 },
        save_before_ct: rng.chance(1, 3),
        name: if rng.chance(1, 5) { "frame".to_string() } else { String::new() },
        gab: if cfg.filters && rng.chance(2, 5) {
            if rng.chance(2, 3) { GabSpec::Default } else { GabSpec::Custom([[0.125, 0.0625], [0.09375, 0.03125], [0.15625, 0.0625]]) }
        } else {
            GabSpec::Off
        },
        epf: if cfg.filters && rng.chance(1, 3) {
            Some(EpfSpec {
                iters: rng.range(1, 3) as u32,
                weight_custom: rng.chance(1, 4).then_some([32.0, 4.0, 2.0]),
                sigma_custom: rng.chance(1, 4).then_some([0.75, 4.0, 0.5]),
                sigma_for_modular: *rng.pick(&[0.5f32, 1.0, 2.0, 4.0]),
            })
        } else {
            None
        },
        noise: if cfg.noise && rng.chance(1, 5) && !(cfg.safe && { let gd = 128u32 << group_size_shift; (ch > gd && ch % gd == 1) || (fh > gd && fh % gd == 1) }) {
            let mut l = [0u32; 8];
            for v in &mut l {
                *v = rng.below(1024) as u32;
            }
            Some(l)
        } else {
            None
        },
        toc_permuted: cfg.toc_permutation && rng.chance(1, 3),
        toc_perm_seed: rng.next_u64(),
        modular,
        vardct: None,
        patches: None,
        splines: None,
    }
}

impl Program {
    pub fn frame_is_normal_kind(kind: FrameKind) -> bool {
        matches!(kind, FrameKind::Regular | FrameKind::SkipProgressive)
    }

    pub fn base_channels_dims(&self, cw: u32, ch: u32, upsampling: u32, ec_upsampling: &[u32]) -> Vec<Chan> {
        let mut v = Vec::new();
        for _ in 0..self.num_color() {
            v.push(Chan { w: cw, h: ch, hshift: 0, vshift: 0 });
        }
        let cshift = upsampling.trailing_zeros();
        for (ec, &up) in self.extra.iter().zip(ec_upsampling) {
            let s = up.trailing_zeros() + ec.dim_shift - cshift;
            v.push(Chan { w: (cw + (1 << s) - 1) >> s, h: (ch + (1 << s) - 1) >> s, hshift: s as i32, vshift: s as i32 });
        }
        v
    }
}

impl FrameSpec {
    /// A frame spec carrying only what `section_layout` reads.
    pub fn probe(kind: FrameKind, crop: Option<(i32, i32, u32, u32)>, upsampling: u32, ec_upsampling: Vec<u32>, group_size_shift: u32, passes: PassesSpec) -> FrameSpec {
        FrameSpec {
            kind,
            crop,
            upsampling,
            ec_upsampling,
            group_size_shift,
            passes,
            blend: BlendSpec { mode: BlendMode::Replace, alpha_channel: 0, clamp: false, source: 0 },
            ec_blend: vec![],
            duration: 0,
            timecode: 0,
            is_last: true,
            save_as_reference: 0,
            save_before_ct: false,
            name: String::new(),
            gab: GabSpec::Off,
            epf: None,
            noise: None,
            toc_permuted: false,
            toc_perm_seed: 0,
            vardct: None,
            patches: None,
            splines: None,
            modular: ModularSpec {
                global: None,
                groups_use_global: false,
                gmodular_use_global: false,
                local: MaSpec { tree: TreeSpec::single(0), tree_coder: Coder::all_zero(6), coder: Coder::all_zero(1) },
                wp_custom: None,
                transforms: vec![],
                mode: SampleMode::RandomResiduals,
                data_seed: 0,
                zero_bias: 0,
                max_residual: 0,
            },
        }
    }
}

/// The smallest useful program: one Modular frame, single-leaf Zero predictor, known samples.
pub fn minimal_program(width: u32, height: u32, seed: u64) -> Program {
    let mut rng = Rng::new(seed);
    let max_residual = 4 << 8;
    let ma = MaSpec { tree: TreeSpec::single(0), tree_coder: Coder::all_zero(6), coder: Coder::random(&mut rng, 1, max_residual, false) };
    let mut f = FrameSpec::probe(
        FrameKind::Regular,
        None,
        1,
        vec![],
        1,
        PassesSpec { num_passes: 1, shift: vec![], downsample: vec![], last_pass: vec![] },
    );
    f.modular.global = Some(ma.clone());
    f.modular.local = ma;
    f.modular.groups_use_global = true;
    f.modular.gmodular_use_global = true;
    f.modular.mode = SampleMode::Known;
    f.modular.max_residual = max_residual;
    f.modular.data_seed = seed;
    Program {
        width,
        height,
        size_form: SizeForm::Explicit,
        orientation: 1,
        bit_depth: 8,
        modular_16bit: true,
        gray: false,
        extra: vec![],
        animation: None,
        intrinsic_size: None,
        extra_fields: false,
        cw_mask: 0,
        cw_seed: 0,
        frames: vec![f],
        preview: None,
        xyb: false,
        colour: Default::default(),
    }
}

/// Field extremes written by the generator itself: the places the C01 text names (width*height
/// products, +1 on decoded varints, crop offsets, pass tables). Sections carry no sample data.
pub fn extreme_program(rng: &mut Rng) -> Program {
    let cfg = GenConfig { max_dim: 64, max_frames: 2, max_pixels: 64 * 64, safe: false, transforms: false, squeeze: false, ..GenConfig::small() }.swarm(rng);
    let mut prog = random_program(rng, &cfg);
    prog.size_form = SizeForm::Explicit;
    let kind = rng.below(9);
    match kind {
        0 => {
            let (w, h) = *rng.pick(&[(65536u32, 65536u32), (1 << 30, 1), (1, 1 << 30), (46341, 46341), (65535, 65537), (1 << 20, 1 << 20), (65536, 1)]);
            prog.width = w;
            prog.height = h;
        }
        1 => {
            // many extra channels (default alpha form keeps the header small)
            let n = *rng.pick(&[17usize, 64, 255, 256, 257]);
            prog.extra = (0..n).map(|_| EcSpec { kind: EcKind::Alpha { associated: false }, bits: 8, dim_shift: 0, name: String::new(), default_form: true }).collect();
        }
        2 => {
            prog.width = *rng.pick(&[1000u32, 5000, 70000]);
            prog.height = *rng.pick(&[1000u32, 3000]);
        }
        _ => {}
    }
    if let Some(pf) = prog.preview.as_mut() {
        // the preview frame is parsed with the main image's dimensions: no sample data either
        pf.modular.mode = SampleMode::Empty;
        pf.modular.transforms.clear();
        pf.group_size_shift = 3;
        pf.upsampling = 1;
        pf.ec_upsampling = vec![1; prog.extra.len()];
        pf.ec_blend = (0..prog.extra.len()).map(|_| BlendSpec { mode: BlendMode::Replace, alpha_channel: 0, clamp: false, source: 0 }).collect();
    }
    let nframes = prog.frames.len();
    for (fi, f) in prog.frames.iter_mut().enumerate() {
        f.modular.mode = SampleMode::Empty;
        f.modular.transforms.clear();
        f.ec_upsampling = vec![f.upsampling; prog.extra.len()];
        f.ec_blend = (0..prog.extra.len()).map(|_| BlendSpec { mode: BlendMode::Replace, alpha_channel: 0, clamp: false, source: 0 }).collect();
        if f.kind == FrameKind::ReferenceOnly {
            f.crop = None;
        }
        let big = prog.width.max(prog.height) > 4096;
        if big {
            f.group_size_shift = 3;
        }
        match kind {
            3 => {
                if f.kind != FrameKind::ReferenceOnly {
                    let o = *rng.pick(&[1i32 << 29, -(1 << 29), (1 << 29) + 9000, -(1 << 29) - 9000, 18688, -18688]);
                    f.crop = Some((o, *rng.pick(&[o, 0, -o]), *rng.pick(&[1u32, 255, 1 << 20, 1 << 30]), *rng.pick(&[1u32, 256, 1 << 10])));
                    f.group_size_shift = 3;
                }
            }
            4 => {
                if f.kind != FrameKind::ReferenceOnly {
                    let np = rng.range(2, 11) as u32;
                    let nds = rng.range(1, 4) as usize;
                    f.passes = PassesSpec {
                        num_passes: np,
                        shift: (0..np - 1).map(|_| rng.below(4) as u32).collect(),
                        downsample: (0..nds).map(|_| *rng.pick(&[1u32, 1, 2, 4, 8])).collect(),
                        last_pass: (0..nds).map(|_| rng.below(8.min(np as u64 + 2)) as u32).collect(),
                    };
                }
            }
            5 => {
                f.upsampling = 8;
                f.ec_upsampling = vec![8; prog.extra.len()];
            }
            6 => {
                f.duration = if prog.animation.is_some() { *rng.pick(&[0u32, 1, u32::MAX]) } else { 0 };
                f.save_as_reference = rng.below(4) as u32;
                f.blend.source = rng.below(4) as u32;
            }
            _ => {}
        }
        f.is_last = fi + 1 == nframes;
    }
    prog
}
