//! Container (ISO-BMFF style box) layouts with a ground-truth model of what they contain.
use crate::bits::BitWriter;
use crate::rng::Rng;
use serde::{Deserialize, Serialize};

#[derive(Clone, Copy, Debug, Serialize, Deserialize, PartialEq, Eq)]
pub enum SizeForm {
    S32,
    S64,
    ToEof,
}

#[derive(Clone, Debug, Serialize, Deserialize)]
pub enum BoxKind {
    /// full codestream box
    Jxlc,
    /// partial codestream box with coded index word (incl. the "last" bit)
    Jxlp { index_word: u32 },
    /// auxiliary box; `brob`: stored as a Brotli-compressed box wrapping `ty`
    Aux { ty: [u8; 4], brob: bool },
}

#[derive(Clone, Debug, Serialize, Deserialize)]
pub struct BoxSpec {
    pub kind: BoxKind,
    /// decompressed payload (codestream part or aux payload)
    #[serde(with = "crate::hexbytes")]
    pub payload: Vec<u8>,
    pub size: SizeForm,
    /// override of the coded size field (ill-formed layouts)
    pub size_override: Option<u64>,
}

#[derive(Clone, Copy, Debug, Serialize, Deserialize, PartialEq, Eq)]
pub enum Ill {
    None,
    JxlpOutOfOrder,
    JxlpDuplicateIndex,
    JxlpAfterLast,
    JxlcAndJxlp,
    TwoJxlc,
    BoxSizeTooSmall32,
    BoxSizeTooSmall64,
    JxlpTooSmall,
    BrobOfReserved,
    BrobTooSmall,
}

#[derive(Clone, Debug, Serialize, Deserialize)]
pub struct ContainerSpec {
    pub with_ftyp: bool,
    pub level: Option<u8>,
    pub boxes: Vec<BoxSpec>,
    pub ill: Ill,
}

/// What a conforming parser must deliver.
#[derive(Clone, Debug, Default, PartialEq, Eq)]
pub struct ContainerModel {
    pub codestream: Vec<u8>,
    /// (type, decompressed payload, was brotli, runs to EOF)
    pub aux: Vec<([u8; 4], Vec<u8>, bool, bool)>,
}

#[derive(Clone, Debug, Default, Serialize, Deserialize)]
pub struct BoxMap {
    /// (header offset, header length, payload offset, total end) per top-level box
    pub boxes: Vec<(usize, usize, usize, usize)>,
    pub len: usize,
}

impl BoxMap {
    /// Offsets inside headers, index words and brob inner types.
    pub fn inside_header_offsets(&self) -> Vec<usize> {
        let mut v = Vec::new();
        for &(h, hl, p, e) in &self.boxes {
            for d in 0..=hl + 8 {
                v.push(h + d);
            }
            v.push(p);
            v.push(e.saturating_sub(1));
            v.push(e);
        }
        v.retain(|&o| o <= self.len);
        v.sort_unstable();
        v.dedup();
        v
    }
}

pub const SIG: [u8; 12] = [0, 0, 0, 0xc, b'J', b'X', b'L', b' ', 0xd, 0xa, 0x87, 0xa];

/// Brotli stream consisting of stored (uncompressed) meta-blocks only.
pub fn brotli_stored(data: &[u8], rng: &mut Rng) -> Vec<u8> {
    let mut w = BitWriter::new();
    w.w(0, 1); // WBITS = 16
    let mut pos = 0;
    while pos < data.len() {
        let max = (data.len() - pos).min(65536);
        let n = if max > 1 && rng.chance(1, 3) { rng.usize_in(1, max) } else { max };
        w.w(0, 1); // ISLAST = 0
        w.w(0, 2); // MNIBBLES = 4
        w.w((n - 1) as u64, 16);
        w.w(1, 1); // ISUNCOMPRESSED
        w.pad();
        for &b in &data[pos..pos + n] {
            w.w(b as u64, 8);
        }
        pos += n;
    }
    w.w(1, 1); // ISLAST
    w.w(1, 1); // ISLASTEMPTY
    w.finish()
}

impl ContainerSpec {
    pub fn model(&self) -> ContainerModel {
        let mut m = ContainerModel::default();
        for b in &self.boxes {
            match &b.kind {
                BoxKind::Jxlc | BoxKind::Jxlp { .. } => m.codestream.extend_from_slice(&b.payload),
                BoxKind::Aux { ty, brob } => m.aux.push((*ty, b.payload.clone(), *brob, b.size == SizeForm::ToEof)),
            }
        }
        m
    }

    pub fn encode(&self, seed: u64) -> (Vec<u8>, BoxMap) {
        let mut rng = Rng::new(seed);
        let mut out = Vec::new();
        let mut map = BoxMap::default();
        out.extend_from_slice(&SIG);
        map.boxes.push((0, 8, 8, 12));
        let push_box = |out: &mut Vec<u8>, map: &mut BoxMap, ty: [u8; 4], body: &[u8], size: SizeForm, size_override: Option<u64>| {
            let h = out.len();
            let hl = match size {
                SizeForm::S64 => 16,
                _ => 8,
            };
            let total = (hl + body.len()) as u64;
            match size {
                SizeForm::S32 => {
                    out.extend_from_slice(&(size_override.unwrap_or(total) as u32).to_be_bytes());
                    out.extend_from_slice(&ty);
                }
                SizeForm::S64 => {
                    out.extend_from_slice(&1u32.to_be_bytes());
                    out.extend_from_slice(&ty);
                    out.extend_from_slice(&size_override.unwrap_or(total).to_be_bytes());
                }
                SizeForm::ToEof => {
                    out.extend_from_slice(&0u32.to_be_bytes());
                    out.extend_from_slice(&ty);
                }
            }
            out.extend_from_slice(body);
            map.boxes.push((h, hl, h + hl, out.len()));
        };
        if self.with_ftyp {
            push_box(&mut out, &mut map, *b"ftyp", b"jxl \0\0\0\0jxl ", SizeForm::S32, None);
        }
        if let Some(l) = self.level {
            push_box(&mut out, &mut map, *b"jxll", &[l], SizeForm::S32, None);
        }
        for b in &self.boxes {
            match &b.kind {
                BoxKind::Jxlc => push_box(&mut out, &mut map, *b"jxlc", &b.payload, b.size, b.size_override),
                BoxKind::Jxlp { index_word } => {
                    let mut body = index_word.to_be_bytes().to_vec();
                    body.extend_from_slice(&b.payload);
                    if b.size_override.is_some() && self.ill == Ill::JxlpTooSmall {
                        body.truncate(2);
                    }
                    push_box(&mut out, &mut map, *b"jxlp", &body, b.size, b.size_override);
                }
                BoxKind::Aux { ty, brob } => {
                    if *brob {
                        let mut body = ty.to_vec();
                        body.extend_from_slice(&brotli_stored(&b.payload, &mut rng));
                        if self.ill == Ill::BrobTooSmall && b.size_override.is_some() {
                            body.truncate(3);
                        }
                        push_box(&mut out, &mut map, *b"brob", &body, b.size, b.size_override);
                    } else {
                        push_box(&mut out, &mut map, *ty, &b.payload, b.size, b.size_override);
                    }
                }
            }
        }
        map.len = out.len();
        (out, map)
    }
}

fn random_aux(rng: &mut Rng, allow_brob: bool) -> BoxSpec {
    let ty: [u8; 4] = match rng.below(6) {
        0 => *b"Exif",
        1 => *b"xml ",
        2 => *b"jumb",
        3 => *b"abcd",
        4 => *b"jhgm",
        _ => [b'a' + rng.below(26) as u8, b'A' + rng.below(26) as u8, b'0' + rng.below(10) as u8, b' '],
    };
    let len = match rng.below(6) {
        0 => 0,
        1 => rng.usize_in(1, 3),
        2 => rng.usize_in(4, 16),
        3 | 4 => rng.usize_in(17, 300),
        _ => rng.usize_in(300, 5000),
    };
    let mut payload: Vec<u8> = (0..len).map(|_| rng.next_u32() as u8).collect();
    if &ty == b"Exif" && payload.len() >= 5 {
        // valid tiff header offset
        payload[0] = 0;
        payload[1] = 0;
        payload[2] = 0;
        payload[3] = rng.below((payload.len() - 4).min(255) as u64) as u8;
    }
    let brob = allow_brob && !(ty[..3] == *b"jxl" || &ty == b"brob" || &ty == b"jbrd") && rng.chance(1, 3);
    BoxSpec {
        kind: BoxKind::Aux { ty, brob },
        payload,
        size: if rng.chance(1, 5) { SizeForm::S64 } else { SizeForm::S32 },
        size_override: None,
    }
}

/// Random well-formed layout around `codestream`.
pub fn random_container(rng: &mut Rng, codestream: &[u8], cut_hints: &[usize]) -> ContainerSpec {
    let mut boxes = Vec::new();
    let n_before = *rng.pick(&[0usize, 0, 1, 2]);
    for _ in 0..n_before {
        boxes.push(random_aux(rng, true));
    }
    let single = rng.chance(2, 5);
    let mut last_is_codestream_to_eof = false;
    if single {
        let size = *rng.pick(&[SizeForm::S32, SizeForm::S32, SizeForm::S64, SizeForm::ToEof]);
        last_is_codestream_to_eof = size == SizeForm::ToEof;
        boxes.push(BoxSpec { kind: BoxKind::Jxlc, payload: codestream.to_vec(), size, size_override: None });
    } else {
        let parts = rng.usize_in(1, 6);
        let mut cuts: Vec<usize> = (0..parts - 1)
            .map(|_| {
                if !cut_hints.is_empty() && rng.chance(1, 2) {
                    (*rng.pick(cut_hints) as i64 + rng.range(-1, 1)).clamp(0, codestream.len() as i64) as usize
                } else {
                    match rng.below(4) {
                        0 => rng.below(3.min(codestream.len() as u64 + 1)) as usize, // inside the 2-byte signature
                        _ => rng.below(codestream.len() as u64 + 1) as usize,
                    }
                }
            })
            .collect();
        cuts.sort_unstable();
        let mut start = 0;
        for i in 0..parts {
            let end = if i + 1 == parts { codestream.len() } else { cuts[i] };
            let last = i + 1 == parts;
            let size = if last { *rng.pick(&[SizeForm::S32, SizeForm::S64, SizeForm::ToEof]) } else { *rng.pick(&[SizeForm::S32, SizeForm::S32, SizeForm::S64]) };
            if last && size == SizeForm::ToEof {
                last_is_codestream_to_eof = true;
            }
            let index_word = i as u32 | if last { 0x8000_0000 } else { 0 };
            boxes.push(BoxSpec { kind: BoxKind::Jxlp { index_word }, payload: codestream[start..end].to_vec(), size, size_override: None });
            start = end;
            if !last && rng.chance(1, 3) {
                boxes.push(random_aux(rng, true));
            }
        }
    }
    if !last_is_codestream_to_eof {
        let n_after = *rng.pick(&[0usize, 0, 1, 2]);
        for i in 0..n_after {
            let mut b = random_aux(rng, true);
            if i + 1 == n_after && rng.chance(1, 3) {
                b.size = SizeForm::ToEof;
            }
            boxes.push(b);
        }
    }
    ContainerSpec { with_ftyp: !rng.chance(1, 8), level: if rng.chance(1, 3) { Some(*rng.pick(&[5u8, 10])) } else { None }, boxes, ill: Ill::None }
}

/// Turns a well-formed layout into an ill-formed one of the given kind; returns false if the
/// layout has no box the defect applies to.
pub fn make_ill(spec: &mut ContainerSpec, ill: Ill, rng: &mut Rng) -> bool {
    let jxlp: Vec<usize> = spec.boxes.iter().enumerate().filter(|(_, b)| matches!(b.kind, BoxKind::Jxlp { .. })).map(|(i, _)| i).collect();
    let jxlc: Vec<usize> = spec.boxes.iter().enumerate().filter(|(_, b)| matches!(b.kind, BoxKind::Jxlc)).map(|(i, _)| i).collect();
    // a to-EOF box swallows everything after it: ill-formedness must come before it
    let eof_pos = spec.boxes.iter().position(|b| b.size == SizeForm::ToEof);
    let before_eof = |i: usize| eof_pos.map(|e| i <= e).unwrap_or(true);
    let ok = match ill {
        Ill::None => true,
        Ill::JxlpOutOfOrder => {
            if jxlp.len() >= 2 {
                let i = jxlp[rng.usize_in(0, jxlp.len() - 2)];
                if let BoxKind::Jxlp { index_word } = &mut spec.boxes[i].kind {
                    *index_word = (*index_word & 0x8000_0000) | ((*index_word & 0x7fff_ffff) + 1 + rng.below(5) as u32);
                }
                true
            } else {
                false
            }
        }
        Ill::JxlpDuplicateIndex => {
            if jxlp.len() >= 2 {
                let k = rng.usize_in(1, jxlp.len() - 1);
                let prev = if let BoxKind::Jxlp { index_word } = spec.boxes[jxlp[k - 1]].kind { index_word & 0x7fff_ffff } else { 0 };
                if let BoxKind::Jxlp { index_word } = &mut spec.boxes[jxlp[k]].kind {
                    *index_word = (*index_word & 0x8000_0000) | prev;
                }
                before_eof(jxlp[k])
            } else {
                false
            }
        }
        Ill::JxlpAfterLast => {
            if let Some(&last) = jxlp.last() {
                if spec.boxes[last].size == SizeForm::ToEof {
                    spec.boxes[last].size = SizeForm::S32;
                }
                let n = jxlp.len() as u32;
                let mut extra = spec.boxes[last].clone();
                extra.kind = BoxKind::Jxlp { index_word: n | if rng.chance(1, 2) { 0x8000_0000 } else { 0 } };
                extra.payload = vec![1, 2, 3];
                spec.boxes.insert(last + 1, extra);
                // boxes after a to-EOF box do not exist for the parser
                spec.boxes.iter().take(last + 1).all(|b| b.size != SizeForm::ToEof)
            } else {
                false
            }
        }
        Ill::JxlcAndJxlp => {
            if let Some(&c) = jxlc.first() {
                if spec.boxes[c].size == SizeForm::ToEof {
                    spec.boxes[c].size = SizeForm::S32;
                }
                let extra = BoxSpec { kind: BoxKind::Jxlp { index_word: 0x8000_0000 }, payload: vec![9, 9], size: SizeForm::S32, size_override: None };
                if rng.chance(1, 2) {
                    spec.boxes.insert(c + 1, extra);
                } else {
                    spec.boxes.insert(c, extra);
                }
                spec.boxes.iter().take(c + 1).all(|b| b.size != SizeForm::ToEof)
            } else if let Some(&p) = jxlp.first() {
                if spec.boxes[p].size == SizeForm::ToEof {
                    spec.boxes[p].size = SizeForm::S32;
                }
                let extra = BoxSpec { kind: BoxKind::Jxlc, payload: vec![0xff, 0x0a], size: SizeForm::S32, size_override: None };
                spec.boxes.insert(p + 1, extra);
                before_eof(p)
            } else {
                false
            }
        }
        Ill::TwoJxlc => {
            if let Some(&c) = jxlc.first() {
                if spec.boxes[c].size == SizeForm::ToEof {
                    spec.boxes[c].size = SizeForm::S64;
                }
                let extra = BoxSpec { kind: BoxKind::Jxlc, payload: vec![0xff, 0x0a, 0], size: SizeForm::S32, size_override: None };
                spec.boxes.insert(c + 1, extra);
                spec.boxes.iter().take(c + 1).all(|b| b.size != SizeForm::ToEof)
            } else {
                false
            }
        }
        Ill::BoxSizeTooSmall32 | Ill::BoxSizeTooSmall64 => {
            let want64 = ill == Ill::BoxSizeTooSmall64;
            let cands: Vec<usize> = (0..spec.boxes.len()).filter(|&i| before_eof(i) && spec.boxes[i].size != SizeForm::ToEof).collect();
            if cands.is_empty() {
                false
            } else {
                let i = *rng.pick(&cands);
                spec.boxes[i].size = if want64 { SizeForm::S64 } else { SizeForm::S32 };
                // 32-bit: sizes 2..=7 (1 means "64-bit follows", 0 means to-EOF); 64-bit: 0..=15
                spec.boxes[i].size_override = Some(if want64 { rng.below(16) } else { rng.range(2, 7) as u64 });
                true
            }
        }
        Ill::JxlpTooSmall => {
            let cands: Vec<usize> = jxlp.iter().copied().filter(|&i| before_eof(i) && spec.boxes[i].size != SizeForm::ToEof).collect();
            if cands.is_empty() {
                false
            } else {
                let i = *rng.pick(&cands);
                let hl = if spec.boxes[i].size == SizeForm::S64 { 16 } else { 8 };
                // declared payload of 0..=3 bytes (body is truncated to 2 bytes by encode)
                spec.boxes[i].size_override = Some(hl + rng.below(3));
                // everything after is garbage for the model; cut it
                spec.boxes.truncate(i + 1);
                true
            }
        }
        Ill::BrobOfReserved => {
            let pos = rng.usize_in(0, eof_pos.unwrap_or(spec.boxes.len()).min(spec.boxes.len()));
            let ty = *rng.pick(&[*b"jxlc", *b"jxlp", *b"jxll", *b"jxli", *b"brob", *b"jbrd", *b"jxlx"]);
            spec.boxes.insert(pos, BoxSpec { kind: BoxKind::Aux { ty, brob: true }, payload: vec![1, 2, 3, 4, 5], size: SizeForm::S32, size_override: None });
            true
        }
        Ill::BrobTooSmall => {
            let pos = rng.usize_in(0, eof_pos.unwrap_or(spec.boxes.len()).min(spec.boxes.len()));
            let size = if rng.chance(1, 2) { SizeForm::S32 } else { SizeForm::S64 };
            let hl = if size == SizeForm::S64 { 16 } else { 8 };
            spec.boxes.insert(pos, BoxSpec { kind: BoxKind::Aux { ty: *b"abcd", brob: true }, payload: vec![], size, size_override: Some(hl + rng.below(4)) });
            spec.boxes.truncate(pos + 1);
            true
        }
    };
    if ok {
        spec.ill = ill;
    }
    ok
}

pub const ALL_ILL: [Ill; 10] = [
    Ill::JxlpOutOfOrder,
    Ill::JxlpDuplicateIndex,
    Ill::JxlpAfterLast,
    Ill::JxlcAndJxlp,
    Ill::TwoJxlc,
    Ill::BoxSizeTooSmall32,
    Ill::BoxSizeTooSmall64,
    Ill::JxlpTooSmall,
    Ill::BrobOfReserved,
    Ill::BrobTooSmall,
];
