//! `jxlgen` — seeded JPEG XL stream *writer* (a stub encoder used as workload generator).
//!
//! A `Program` is a complete, serialisable description of one stream. `encode` turns it into bytes
//! plus a `StreamMap` of structural byte offsets. Everything here is written from the format as the
//! decoder's own tables mirror it; no decoder code is called.
pub mod container;
pub mod entropy;
pub mod features;
pub mod icc;
pub mod vardct;

use crate::bits::{BitWriter, pack_signed};
use crate::rng::Rng;
use entropy::Coder;
use serde::{Deserialize, Serialize};

// ---------------------------------------------------------------------------------------------
// Program model
// ---------------------------------------------------------------------------------------------

#[derive(Clone, Debug, Serialize, Deserialize, PartialEq)]
pub enum EcKind {
    Alpha { associated: bool },
    Depth,
    Spot([f32; 4]),
    SelectionMask,
    Black,
    Thermal,
    Optional,
}

#[derive(Clone, Debug, Serialize, Deserialize)]
pub struct EcSpec {
    pub kind: EcKind,
    pub bits: u32,
    pub dim_shift: u32,
    pub name: String,
    /// write the one-bit "default alpha channel" form (requires Alpha{false}, 8 bit, shift 0, no name)
    pub default_form: bool,
}

#[derive(Clone, Debug, Serialize, Deserialize)]
pub struct AnimSpec {
    pub tps_num: u32,
    pub tps_den: u32,
    pub loops: u32,
    pub timecodes: bool,
}

#[derive(Clone, Copy, Debug, Serialize, Deserialize, PartialEq, Eq)]
pub enum FrameKind {
    Regular,
    ReferenceOnly,
    SkipProgressive,
    /// LF frame of level 1: an 8x downsampled XYB image a later VarDCT frame takes its LF coefficients from
    LfFrame,
}

#[derive(Clone, Copy, Debug, Serialize, Deserialize, PartialEq, Eq)]
pub enum BlendMode {
    Replace = 0,
    Add = 1,
    Blend = 2,
    MulAdd = 3,
    Mul = 4,
}

#[derive(Clone, Debug, Serialize, Deserialize)]
pub struct BlendSpec {
    pub mode: BlendMode,
    pub alpha_channel: u32,
    pub clamp: bool,
    pub source: u32,
}

#[derive(Clone, Debug, Serialize, Deserialize)]
pub enum GabSpec {
    Off,
    Default,
    Custom([[f32; 2]; 3]),
}

#[derive(Clone, Debug, Serialize, Deserialize)]
pub struct EpfSpec {
    pub iters: u32,
    pub weight_custom: Option<[f32; 3]>,
    pub sigma_custom: Option<[f32; 3]>,
    pub sigma_for_modular: f32,
}

#[derive(Clone, Debug, Serialize, Deserialize)]
pub struct PassesSpec {
    pub num_passes: u32,
    pub shift: Vec<u32>,
    pub downsample: Vec<u32>,
    pub last_pass: Vec<u32>,
}

#[derive(Clone, Debug, Serialize, Deserialize)]
pub enum TreeNode {
    Decision { prop: u32, value: i32 },
    Leaf { predictor: u32, offset: i32, mul_log: u32, mul_bits: u32 },
}

#[derive(Clone, Debug, Serialize, Deserialize)]
pub struct TreeSpec {
    /// breadth-first order, as coded
    pub nodes: Vec<TreeNode>,
}

impl TreeSpec {
    pub fn single(predictor: u32) -> Self {
        Self { nodes: vec![TreeNode::Leaf { predictor, offset: 0, mul_log: 0, mul_bits: 0 }] }
    }
    pub fn leaves(&self) -> u32 {
        self.nodes.iter().filter(|n| matches!(n, TreeNode::Leaf { .. })).count() as u32
    }
    pub fn uses_prev_channels(&self) -> bool {
        self.nodes.iter().any(|n| matches!(n, TreeNode::Decision { prop, .. } if *prop >= 16))
    }
}

#[derive(Clone, Debug, Serialize, Deserialize)]
pub struct SqueezeStep {
    pub horizontal: bool,
    pub in_place: bool,
    pub begin_c: u32,
    pub num_c: u32,
}

#[derive(Clone, Debug, Serialize, Deserialize)]
pub enum TransformSpec {
    Rct { begin_c: u32, rct_type: u32 },
    Palette { begin_c: u32, num_c: u32, nb_colours: u32, nb_deltas: u32, d_pred: u32 },
    /// empty `steps` = default squeeze parameters
    Squeeze { steps: Vec<SqueezeStep> },
}

#[derive(Clone, Debug, Serialize, Deserialize)]
pub struct MaSpec {
    pub tree: TreeSpec,
    pub tree_coder: Coder,
    pub coder: Coder,
}

#[derive(Clone, Debug, Serialize, Deserialize)]
pub enum SampleMode {
    /// residual values drawn from the PRNG seeded with `data_seed` (biased to small values)
    RandomResiduals,
    /// samples are a smooth function of position plus noise; only valid with a single-leaf
    /// Zero-predictor tree and no transforms (the generator then knows every sample)
    Known,
    /// no sample data at all: every section ends right after its headers (hostile / extreme inputs)
    Empty,
}

#[derive(Clone, Debug, Serialize, Deserialize)]
pub struct ModularSpec {
    pub global: Option<MaSpec>,
    /// groups use the global tree (requires `global`), else each section carries its own
    pub groups_use_global: bool,
    pub gmodular_use_global: bool,
    /// template for local trees (cloned per section)
    pub local: MaSpec,
    pub wp_custom: Option<[u32; 11]>,
    pub transforms: Vec<TransformSpec>,
    pub mode: SampleMode,
    pub data_seed: u64,
    /// percentage of zero residuals in RandomResiduals mode
    pub zero_bias: u32,
    /// upper bound of the residual magnitude (packed) in RandomResiduals mode
    pub max_residual: u32,
}

#[derive(Clone, Debug, Serialize, Deserialize)]
pub struct FrameSpec {
    pub kind: FrameKind,
    pub crop: Option<(i32, i32, u32, u32)>,
    pub upsampling: u32,
    pub ec_upsampling: Vec<u32>,
    pub group_size_shift: u32,
    pub passes: PassesSpec,
    pub blend: BlendSpec,
    pub ec_blend: Vec<BlendSpec>,
    pub duration: u32,
    pub timecode: u32,
    pub is_last: bool,
    pub save_as_reference: u32,
    pub save_before_ct: bool,
    pub name: String,
    pub gab: GabSpec,
    pub epf: Option<EpfSpec>,
    pub noise: Option<[u32; 8]>,
    pub toc_permuted: bool,
    pub toc_perm_seed: u64,
    pub modular: ModularSpec,
    /// `Some`: the colour channels are VarDCT-coded (extra channels stay Modular)
    #[serde(default)]
    pub vardct: Option<vardct::VarDctSpec>,
    #[serde(default)]
    pub patches: Option<features::PatchSpec>,
    #[serde(default)]
    pub splines: Option<features::SplineSpec>,
}

#[derive(Clone, Debug, Serialize, Deserialize)]
pub enum SizeForm {
    Explicit,
    Div8,
    Ratio(u32),
}

#[derive(Clone, Debug, Serialize, Deserialize)]
pub struct Program {
    pub width: u32,
    pub height: u32,
    pub size_form: SizeForm,
    pub orientation: u32,
    pub bit_depth: u32,
    pub modular_16bit: bool,
    pub gray: bool,
    pub extra: Vec<EcSpec>,
    pub animation: Option<AnimSpec>,
    pub intrinsic_size: Option<(u32, u32)>,
    pub extra_fields: bool,
    /// custom upsampling weight mask (bit 0: 2x, bit 1: 4x, bit 2: 8x) — weights drawn from seed
    pub cw_mask: u32,
    pub cw_seed: u64,
    pub frames: Vec<FrameSpec>,
    /// preview frame (coded right after the image header; the decoder skips it)
    #[serde(default)]
    pub preview: Option<Box<FrameSpec>>,
    /// XYB-encoded image (required for the VarDCT frames this generator writes)
    #[serde(default)]
    pub xyb: bool,
    /// colour encoding of the image header (enum variants, embedded ICC)
    #[serde(default)]
    pub colour: icc::ColourSpec,
}

/// Structural byte offsets of an encoded codestream (relative to codestream start).
#[derive(Clone, Debug, Default, Serialize, Deserialize)]
pub struct StreamMap {
    pub header_end: usize,
    pub frames: Vec<FrameMap>,
    #[serde(default)]
    pub preview: Option<FrameMap>,
    pub len: usize,
}

#[derive(Clone, Debug, Default, Serialize, Deserialize)]
pub struct FrameMap {
    pub start: usize,
    pub toc_start: usize,
    pub data_start: usize,
    /// (offset, size) of each section in bitstream order
    pub sections: Vec<(usize, usize)>,
    pub end: usize,
}

impl StreamMap {
    /// Offsets worth cutting at (and around).
    pub fn structural_offsets(&self) -> Vec<usize> {
        let mut v = vec![0, 1, 2, self.header_end];
        for f in self.preview.iter().chain(&self.frames) {
            v.push(f.start);
            v.push(f.toc_start);
            v.push(f.data_start);
            for &(o, s) in &f.sections {
                v.push(o);
                v.push(o + s);
            }
            v.push(f.end);
        }
        v.push(self.len);
        v.sort_unstable();
        v.dedup();
        v.retain(|&o| o <= self.len);
        v
    }
}

// ---------------------------------------------------------------------------------------------
// Channel layout mirror
// ---------------------------------------------------------------------------------------------

#[derive(Clone, Debug)]
pub struct Chan {
    pub w: u32,
    pub h: u32,
    pub hshift: i32,
    pub vshift: i32,
}

fn shift_size(v: u32, s: u32) -> u32 {
    (v + (1 << s) - 1) >> s
}

impl Program {
    pub fn num_color(&self) -> usize {
        if self.gray { 1 } else { 3 }
    }

    pub fn frame_dims(&self, f: &FrameSpec) -> (u32, u32) {
        match f.crop {
            Some((_, _, w, h)) => (w, h),
            None => (self.width, self.height),
        }
    }

    pub fn color_sample_dims(&self, f: &FrameSpec) -> (u32, u32) {
        let (w, h) = self.frame_dims(f);
        let (w, h) = (w.div_ceil(f.upsampling), h.div_ceil(f.upsampling));
        if f.kind == FrameKind::LfFrame { (w.div_ceil(8), h.div_ceil(8)) } else { (w, h) }
    }

    /// Channel list of the frame's GlobalModular image before transforms.
    pub fn base_channels(&self, f: &FrameSpec) -> Vec<Chan> {
        let (cw, ch) = self.color_sample_dims(f);
        let mut v = Vec::new();
        if f.vardct.is_none() {
            for _ in 0..self.num_color() {
                v.push(Chan { w: cw, h: ch, hshift: 0, vshift: 0 });
            }
        }
        let cshift = f.upsampling.trailing_zeros();
        for (ec, &up) in self.extra.iter().zip(&f.ec_upsampling) {
            let s = up.trailing_zeros() + ec.dim_shift - cshift;
            v.push(Chan { w: shift_size(cw, s), h: shift_size(ch, s), hshift: s as i32, vshift: s as i32 });
        }
        v
    }
}

/// Applies the channel-list effect of the transforms; returns (channels, nb_meta) or None if a
/// transform is not applicable (the caller then drops it).
pub fn apply_transforms(base: &[Chan], transforms: &[TransformSpec]) -> Option<(Vec<Chan>, usize)> {
    let mut ch: Vec<Chan> = base.to_vec();
    let mut nb_meta = 0usize;
    for t in transforms {
        match t {
            TransformSpec::Rct { begin_c, .. } => {
                let b = *begin_c as usize;
                if b + 3 > ch.len() {
                    return None;
                }
                if ch[b + 1].w != ch[b].w || ch[b + 1].h != ch[b].h || ch[b + 2].w != ch[b].w || ch[b + 2].h != ch[b].h {
                    return None;
                }
            }
            TransformSpec::Palette { begin_c, num_c, nb_colours, .. } => {
                let b = *begin_c as usize;
                let e = b + *num_c as usize;
                if e > ch.len() {
                    return None;
                }
                if b < nb_meta {
                    if e > nb_meta {
                        return None;
                    }
                    nb_meta = nb_meta + 2 - *num_c as usize;
                } else {
                    nb_meta += 1;
                }
                for c in &ch[b + 1..e] {
                    if c.w != ch[b].w || c.h != ch[b].h {
                        return None;
                    }
                }
                ch.drain(b + 1..e);
                ch.insert(0, Chan { w: *nb_colours, h: *num_c, hshift: -1, vshift: -1 });
            }
            TransformSpec::Squeeze { steps } => {
                let steps = if steps.is_empty() { default_squeeze(&ch, nb_meta)? } else { steps.clone() };
                for sp in &steps {
                    let b = sp.begin_c as usize;
                    let e = b + sp.num_c as usize;
                    if e > ch.len() {
                        return None;
                    }
                    if b < nb_meta {
                        if !sp.in_place || e > nb_meta {
                            return None;
                        }
                        nb_meta += sp.num_c as usize;
                    }
                    let mut residu = Vec::new();
                    for c in ch[b..e].iter_mut() {
                        if c.w == 0 || c.h == 0 || c.hshift > 30 || c.vshift > 30 {
                            return None;
                        }
                        let mut r = c.clone();
                        if sp.horizontal {
                            let len = c.w;
                            c.w = len.div_ceil(2);
                            r.w = len / 2;
                            if c.hshift >= 0 {
                                c.hshift += 1;
                                r.hshift += 1;
                            }
                        } else {
                            let len = c.h;
                            c.h = len.div_ceil(2);
                            r.h = len / 2;
                            if c.vshift >= 0 {
                                c.vshift += 1;
                                r.vshift += 1;
                            }
                        }
                        residu.push(r);
                    }
                    if sp.in_place {
                        let tail: Vec<Chan> = ch.drain(e..).collect();
                        ch.extend(residu);
                        ch.extend(tail);
                    } else {
                        ch.extend(residu);
                    }
                }
            }
        }
    }
    Some((ch, nb_meta))
}

fn default_squeeze(ch: &[Chan], nb_meta: usize) -> Option<Vec<SqueezeStep>> {
    let first = nb_meta;
    if first >= ch.len() {
        return None;
    }
    let mut sp = Vec::new();
    let mut w = ch[first].w;
    let mut h = ch[first].h;
    if ch.len() - first >= 3 && ch[first + 1].w == w && ch[first + 1].h == h {
        sp.push(SqueezeStep { horizontal: true, in_place: false, begin_c: first as u32 + 1, num_c: 2 });
        sp.push(SqueezeStep { horizontal: false, in_place: false, begin_c: first as u32 + 1, num_c: 2 });
    }
    let num_c = (ch.len() - first) as u32;
    let base = |horizontal| SqueezeStep { horizontal, in_place: true, begin_c: first as u32, num_c };
    if h >= w && h > 8 {
        sp.push(base(false));
        h = h.div_ceil(2);
    }
    while w > 8 || h > 8 {
        if w > 8 {
            sp.push(base(true));
            w = w.div_ceil(2);
        }
        if h > 8 {
            sp.push(base(false));
            h = h.div_ceil(2);
        }
    }
    Some(sp)
}

/// Where each transformed channel is coded.
#[derive(Debug, Default)]
pub struct SectionLayout {
    pub global: Vec<Chan>,
    /// per LF group: channel cells
    pub lf_groups: Vec<Vec<Chan>>,
    /// [pass][group]: channel cells
    pub pass_groups: Vec<Vec<Vec<Chan>>>,
    pub num_groups: u32,
    pub num_lf_groups: u32,
}

pub fn pass_shift_table(p: &PassesSpec) -> Vec<(u32, (i32, i32))> {
    let mut map = std::collections::BTreeMap::new();
    let mut maxshift = 3i32;
    for (&ds, &lp) in p.downsample.iter().zip(&p.last_pass) {
        let minshift = ds.trailing_zeros() as i32;
        map.insert(lp, (minshift, maxshift));
        maxshift = minshift;
    }
    map.insert(p.num_passes - 1, (0, maxshift));
    map.into_iter().collect()
}

pub fn section_layout(prog: &Program, f: &FrameSpec, chans: &[Chan], nb_meta: usize) -> Option<SectionLayout> {
    let (cw, chh) = prog.color_sample_dims(f);
    let gd = 128u32 << f.group_size_shift;
    let gcols = cw.div_ceil(gd);
    let grows = chh.div_ceil(gd);
    let lcols = cw.div_ceil(gd * 8);
    let lrows = chh.div_ceil(gd * 8);
    if gcols as u64 * grows as u64 * f.passes.num_passes as u64 > 70_000 {
        return None;
    }
    let num_groups = gcols * grows;
    let num_lf_groups = lcols * lrows;
    let mut lay = SectionLayout {
        num_groups,
        num_lf_groups,
        lf_groups: vec![Vec::new(); num_lf_groups as usize],
        pass_groups: vec![vec![Vec::new(); num_groups as usize]; f.passes.num_passes as usize],
        ..Default::default()
    };
    let table = pass_shift_table(&f.passes);
    let mut i = 0;
    while i < chans.len() && (i < nb_meta || (chans[i].w <= gd && chans[i].h <= gd)) {
        lay.global.push(chans[i].clone());
        i += 1;
    }
    for c in &chans[i..] {
        if c.hshift < 0 || c.vshift < 0 {
            return None;
        }
        if c.hshift < 3 || c.vshift < 3 {
            let shift = c.hshift.min(c.vshift);
            let pass = table.iter().find(|(_, (lo, hi))| (*lo..*hi).contains(&shift))?.0 as usize;
            let gw = gd >> c.hshift;
            let gh = gd >> c.vshift;
            if gw == 0 || gh == 0 {
                return None;
            }
            for gy in 0..grows {
                let y = (gy * gh).min(c.h);
                let hh = (c.h - y).min(gh);
                for gx in 0..gcols {
                    let x = (gx * gw).min(c.w);
                    let ww = (c.w - x).min(gw);
                    if ww == 0 || hh == 0 {
                        continue;
                    }
                    lay.pass_groups[pass][(gy * gcols + gx) as usize].push(Chan { w: ww, h: hh, hshift: c.hshift, vshift: c.vshift });
                }
            }
        } else {
            let gw = gd >> (c.hshift - 3);
            let gh = gd >> (c.vshift - 3);
            if gw == 0 || gh == 0 {
                return None;
            }
            for gy in 0..lrows {
                let y = (gy * gh).min(c.h);
                let hh = (c.h - y).min(gh);
                for gx in 0..lcols {
                    let x = (gx * gw).min(c.w);
                    let ww = (c.w - x).min(gw);
                    if ww == 0 || hh == 0 {
                        continue;
                    }
                    lay.lf_groups[(gy * lcols + gx) as usize].push(Chan { w: ww, h: hh, hshift: c.hshift, vshift: c.vshift });
                }
            }
        }
    }
    Some(lay)
}

// ---------------------------------------------------------------------------------------------
// Encoding
// ---------------------------------------------------------------------------------------------

const U32_SIZE: [(u32, u32); 4] = [(1, 9), (1, 13), (1, 18), (1, 30)];
const U32_CROP: [(u32, u32); 4] = [(0, 8), (256, 11), (2304, 14), (18688, 30)];
const U32_1248: [(u32, u32); 4] = [(1, 0), (2, 0), (4, 0), (8, 0)];
const U32_BEGIN_C: [(u32, u32); 4] = [(0, 3), (8, 6), (72, 10), (1096, 13)];

fn write_size_header(w: &mut BitWriter, width: u32, height: u32, form: &SizeForm) {
    match form {
        SizeForm::Div8 if width % 8 == 0 && height % 8 == 0 && width <= 256 && height <= 256 => {
            w.bool(true);
            w.w((height / 8 - 1) as u64, 5);
            w.w(0, 3);
            w.w((width / 8 - 1) as u64, 5);
        }
        SizeForm::Ratio(r) if (1..=7).contains(r) && ratio_width(*r, height) == width => {
            w.bool(false);
            w.u32(U32_SIZE, height, None);
            w.w(*r as u64, 3);
        }
        _ => {
            w.bool(false);
            w.u32(U32_SIZE, height, None);
            w.w(0, 3);
            w.u32(U32_SIZE, width, None);
        }
    }
}

pub fn ratio_width(r: u32, h: u32) -> u32 {
    let h = h as u64;
    (match r {
        1 => h,
        2 => h * 12 / 10,
        3 => h * 4 / 3,
        4 => h * 3 / 2,
        5 => h * 16 / 9,
        6 => h * 5 / 4,
        7 => h * 2,
        _ => 0,
    }) as u32
}

fn write_bit_depth_int(w: &mut BitWriter, bits: u32) {
    w.bool(false);
    w.u32([(8, 0), (10, 0), (12, 0), (1, 6)], bits, None);
}

fn write_blend(w: &mut BitWriter, b: &BlendSpec, has_ec: bool, resets_canvas: bool) {
    w.u32([(0, 0), (1, 0), (2, 0), (3, 2)], b.mode as u32, None);
    let uses_alpha = matches!(b.mode, BlendMode::Blend | BlendMode::MulAdd);
    if has_ec && uses_alpha {
        w.u32([(0, 0), (1, 0), (2, 0), (3, 3)], b.alpha_channel, None);
    }
    if (has_ec && uses_alpha) || b.mode == BlendMode::Mul {
        w.bool(b.clamp);
    }
    if !resets_canvas {
        w.w(b.source as u64, 2);
    }
}

impl Program {
    pub fn frame_resets_canvas(&self, f: &FrameSpec) -> bool {
        if f.blend.mode != BlendMode::Replace {
            return false;
        }
        match f.crop {
            None => true,
            Some((x0, y0, w, h)) => {
                // ReferenceOnly frames do not code x0/y0 (they parse as 0)
                let (x0, y0) = if f.kind == FrameKind::ReferenceOnly { (0, 0) } else { (x0, y0) };
                if x0 > 0 || y0 > 0 {
                    return false;
                }
                (x0 as i64 + w as i64) >= self.width as i64 && (y0 as i64 + h as i64) >= self.height as i64
            }
        }
    }

    pub fn frame_is_normal(f: &FrameSpec) -> bool {
        matches!(f.kind, FrameKind::Regular | FrameKind::SkipProgressive)
    }

    pub fn frame_is_keyframe(f: &FrameSpec) -> bool {
        Self::frame_is_normal(f) && (f.is_last || f.duration != 0)
    }

    pub fn frame_can_reference(f: &FrameSpec) -> bool {
        !f.is_last && (f.duration == 0 || f.save_as_reference != 0) && f.kind != FrameKind::LfFrame
    }

    fn write_image_header(&self, w: &mut BitWriter) {
        w.w(0x0aff, 16);
        write_size_header(w, self.width, self.height, &self.size_form);
        // ImageMetadata
        w.bool(false); // all_default
        let extra_fields = self.extra_fields || self.orientation != 1 || self.animation.is_some() || self.intrinsic_size.is_some() || self.preview.is_some();
        w.bool(extra_fields);
        if extra_fields {
            w.w((self.orientation - 1) as u64, 3);
            w.bool(self.intrinsic_size.is_some());
            if let Some((iw, ih)) = self.intrinsic_size {
                write_size_header(w, iw, ih, &SizeForm::Explicit);
            }
            w.bool(self.preview.is_some());
            if self.preview.is_some() {
                // PreviewHeader: explicit form (div8 = 0, ratio = 0)
                w.bool(false);
                w.u32([(1, 6), (65, 8), (321, 10), (1345, 12)], self.height.clamp(1, 64), None);
                w.w(0, 3);
                w.u32([(1, 6), (65, 8), (321, 10), (1345, 12)], self.width.clamp(1, 64), None);
            }
            w.bool(self.animation.is_some());
            if let Some(a) = &self.animation {
                w.u32([(100, 0), (1000, 0), (1, 10), (1, 30)], a.tps_num, None);
                w.u32([(1, 0), (1001, 0), (1, 8), (1, 10)], a.tps_den, None);
                w.u32([(0, 0), (0, 3), (0, 16), (0, 32)], a.loops, None);
                w.bool(a.timecodes);
            }
        }
        write_bit_depth_int(w, self.bit_depth);
        w.bool(self.modular_16bit);
        w.u32([(0, 0), (1, 0), (2, 4), (1, 12)], self.extra.len() as u32, None);
        for ec in &self.extra {
            if ec.default_form {
                w.bool(true);
                continue;
            }
            w.bool(false);
            let ty = match ec.kind {
                EcKind::Alpha { .. } => 0,
                EcKind::Depth => 1,
                EcKind::Spot(_) => 2,
                EcKind::SelectionMask => 3,
                EcKind::Black => 4,
                EcKind::Thermal => 6,
                EcKind::Optional => 16,
            };
            w.enum_(ty);
            write_bit_depth_int(w, ec.bits);
            w.u32([(0, 0), (3, 0), (4, 0), (1, 3)], ec.dim_shift, None);
            w.name(&ec.name);
            match &ec.kind {
                EcKind::Alpha { associated } => w.bool(*associated),
                EcKind::Spot(v) => {
                    for x in v {
                        w.f16(*x);
                    }
                }
                _ => {}
            }
        }
        w.bool(self.xyb); // xyb_encoded
        // colour encoding
        icc::write_colour_encoding(w, &self.colour, self.gray, self.xyb);
        if extra_fields {
            w.bool(true); // tone mapping all_default
        }
        w.u64(0); // extensions
        if self.cw_mask == 0 {
            w.bool(true); // default_m
        } else {
            w.bool(false);
            if self.xyb {
                w.bool(true); // OpsinInverseMatrix: all_default
            }
            w.w(self.cw_mask as u64, 3);
            let mut r = Rng::new(self.cw_seed);
            for (bit, n) in [(1u32, 15usize), (2, 55), (4, 210)] {
                if self.cw_mask & bit != 0 {
                    for _ in 0..n {
                        // small weights around the defaults' magnitude
                        let v = (r.range(-64, 192) as f32) / 256.0;
                        w.f16(v);
                    }
                }
            }
        }
        if let icc::ColourSpec::Icc(spec) = &self.colour {
            spec.write(w, self.gray && !self.xyb);
        }
        w.pad();
    }

    fn write_frame_header(&self, w: &mut BitWriter, f: &FrameSpec) {
        let normal = Self::frame_is_normal(f);
        w.bool(false); // all_default
        w.w(
            match f.kind {
                FrameKind::Regular => 0,
                FrameKind::LfFrame => 1,
                FrameKind::ReferenceOnly => 2,
                FrameKind::SkipProgressive => 3,
            },
            2,
        );
        w.w(f.vardct.is_none() as u64, 1); // 1 = Modular, 0 = VarDCT
        let mut flags = 0u64;
        if f.noise.is_some() {
            flags |= 1;
        }
        if f.patches.is_some() {
            flags |= 2;
        }
        if f.splines.is_some() {
            flags |= 0x10;
        }
        if f.vardct.as_ref().map(|v| v.skip_adaptive_lf_smoothing).unwrap_or(false) {
            flags |= 0x80;
        }
        let use_lf_frame = f.vardct.as_ref().map(|v| v.use_lf_frame).unwrap_or(false);
        if use_lf_frame {
            flags |= 0x20;
        }
        w.u64(flags);
        if !self.xyb {
            w.bool(false); // do_ycbcr
        }
        if !use_lf_frame {
            w.u32(U32_1248, f.upsampling, None);
            for &u in &f.ec_upsampling {
                w.u32(U32_1248, u, None);
            }
        }
        if let Some(vd) = &f.vardct {
            if self.xyb {
                w.w(vd.x_qm_scale as u64, 3);
                w.w(vd.b_qm_scale as u64, 3);
            }
        } else {
            w.w(f.group_size_shift as u64, 2);
        }
        if f.kind != FrameKind::ReferenceOnly {
            let p = &f.passes;
            w.u32([(1, 0), (2, 0), (3, 0), (4, 3)], p.num_passes, None);
            if p.num_passes != 1 {
                w.u32([(0, 0), (1, 0), (2, 0), (3, 1)], p.downsample.len() as u32, None);
                for &s in &p.shift {
                    w.w(s as u64, 2);
                }
                for &d in &p.downsample {
                    w.u32(U32_1248, d, None);
                }
                for &l in &p.last_pass {
                    w.u32([(0, 0), (1, 0), (2, 0), (0, 3)], l, None);
                }
            }
        }
        if f.kind == FrameKind::LfFrame {
            w.w(0, 2); // lf_level = 1
        } else {
            w.bool(f.crop.is_some());
        }
        if let Some((x0, y0, cw, ch)) = f.crop.filter(|_| f.kind != FrameKind::LfFrame) {
            if f.kind != FrameKind::ReferenceOnly {
                w.u32(U32_CROP, pack_signed(x0), None);
                w.u32(U32_CROP, pack_signed(y0), None);
            }
            w.u32(U32_CROP, cw, None);
            w.u32(U32_CROP, ch, None);
        }
        let resets = self.frame_resets_canvas(f);
        if normal {
            let has_ec = !self.extra.is_empty();
            write_blend(w, &f.blend, has_ec, resets);
            for b in &f.ec_blend {
                write_blend(w, b, has_ec, resets);
            }
            if let Some(a) = &self.animation {
                w.u32([(0, 0), (1, 0), (0, 8), (0, 32)], f.duration, None);
                if a.timecodes {
                    w.w(f.timecode as u64, 32);
                }
            }
            w.bool(f.is_last);
        }
        if !f.is_last && f.kind != FrameKind::LfFrame {
            w.w(f.save_as_reference as u64, 2);
        }
        let duration = if self.animation.is_some() && normal { f.duration } else { 0 };
        if f.kind == FrameKind::ReferenceOnly || (f.kind != FrameKind::LfFrame && resets && (!f.is_last && (duration == 0 || f.save_as_reference != 0))) {
            w.bool(f.save_before_ct);
        }
        w.name(&f.name);
        // restoration filter
        {
            w.bool(false); // restoration filter: never the all_default form
            match &f.gab {
                GabSpec::Off => w.bool(false),
                GabSpec::Default => {
                    w.bool(true);
                    w.bool(false);
                }
                GabSpec::Custom(ws) => {
                    w.bool(true);
                    w.bool(true);
                    for c in ws {
                        w.f16(c[0]);
                        w.f16(c[1]);
                    }
                }
            }
            match &f.epf {
                None => w.w(0, 2),
                Some(e) => {
                    w.w(e.iters as u64, 2);
                    if f.vardct.is_some() {
                        w.bool(false); // sharp_custom (VarDCT only)
                    }
                    w.bool(e.weight_custom.is_some());
                    if let Some(c) = &e.weight_custom {
                        for x in c {
                            w.f16(*x);
                        }
                        w.w(0, 32);
                    }
                    w.bool(e.sigma_custom.is_some());
                    if let Some(c) = &e.sigma_custom {
                        if f.vardct.is_some() {
                            w.f16(0.46); // quant_mul (VarDCT only)
                        }
                        for x in c {
                            w.f16(*x);
                        }
                    }
                    if f.vardct.is_none() {
                        w.f16(e.sigma_for_modular);
                    }
                }
            }
            w.u64(0); // rf extensions
        }
        w.u64(0); // extensions
    }

    fn write_tree(&self, w: &mut BitWriter, ma: &MaSpec) {
        ma.tree_coder.write_header(w);
        for n in &ma.tree.nodes {
            match n {
                TreeNode::Decision { prop, value } => {
                    ma.tree_coder.write_value(w, 1, prop + 1);
                    ma.tree_coder.write_value(w, 0, pack_signed(*value));
                }
                TreeNode::Leaf { predictor, offset, mul_log, mul_bits } => {
                    ma.tree_coder.write_value(w, 1, 0);
                    ma.tree_coder.write_value(w, 2, *predictor);
                    ma.tree_coder.write_value(w, 3, pack_signed(*offset));
                    ma.tree_coder.write_value(w, 4, *mul_log);
                    ma.tree_coder.write_value(w, 5, *mul_bits);
                }
            }
        }
        ma.tree_coder.end_session(w);
        ma.coder.write_header(w);
    }

    fn write_modular_header(&self, w: &mut BitWriter, use_global: bool, m: &ModularSpec, transforms: &[TransformSpec]) {
        w.bool(use_global);
        match &m.wp_custom {
            None => w.bool(true),
            Some(p) => {
                w.bool(false);
                for (i, v) in p.iter().enumerate() {
                    w.w(*v as u64, if i < 7 { 5 } else { 4 });
                }
            }
        }
        w.u32([(0, 0), (1, 0), (2, 4), (18, 8)], transforms.len() as u32, None);
        for t in transforms {
            match t {
                TransformSpec::Rct { begin_c, rct_type } => {
                    w.w(0, 2);
                    w.u32(U32_BEGIN_C, *begin_c, None);
                    w.u32([(6, 0), (0, 2), (2, 4), (10, 6)], *rct_type, None);
                }
                TransformSpec::Palette { begin_c, num_c, nb_colours, nb_deltas, d_pred } => {
                    w.w(1, 2);
                    w.u32(U32_BEGIN_C, *begin_c, None);
                    w.u32([(1, 0), (3, 0), (4, 0), (1, 13)], *num_c, None);
                    w.u32([(0, 8), (256, 10), (1280, 12), (5376, 16)], *nb_colours, None);
                    w.u32([(0, 0), (1, 8), (257, 10), (1281, 16)], *nb_deltas, None);
                    w.w(*d_pred as u64, 4);
                }
                TransformSpec::Squeeze { steps } => {
                    w.w(2, 2);
                    w.u32([(0, 0), (1, 4), (9, 6), (41, 8)], steps.len() as u32, None);
                    for s in steps {
                        w.bool(s.horizontal);
                        w.bool(s.in_place);
                        w.u32(U32_BEGIN_C, s.begin_c, None);
                        w.u32([(1, 0), (2, 0), (3, 0), (4, 4)], s.num_c, None);
                    }
                }
            }
        }
    }

    /// Writes the samples of one (sub)image: `chans` in order.
    fn write_samples(&self, w: &mut BitWriter, m: &ModularSpec, ma: &MaSpec, chans: &[Chan], rng: &mut Rng, stream_salt: u64) {
        let coder = &ma.coder;
        match m.mode {
            SampleMode::Empty => return,
            SampleMode::Known => {
                for (ci, c) in chans.iter().enumerate() {
                    for y in 0..c.h {
                        for x in 0..c.w {
                            let v = pack_signed(known_sample(self.bit_depth, stream_salt, ci as u32, x, y, c.w, c.h));
                            coder.write_value(w, 0, v.min(coder.max_value));
                        }
                    }
                }
            }
            SampleMode::RandomResiduals => {
                // positions carry no meaning for the writer: a flat symbol counter is enough
                let total: u64 = chans.iter().map(|c| c.w as u64 * c.h as u64).sum();
                let maxv = coder.max_value.min(m.max_residual);
                let mut written = 0u64;
                while written < total {
                    if let Some(lz) = &coder.lz77
                        && written > 0
                        && rng.chance(1, 24)
                    {
                        let len = lz.min_length + rng.below(16) as u32;
                        if (len as u64) <= total - written {
                            coder.write_copy(w, 0, len, rng.below(200) as u32);
                            written += len as u64;
                            continue;
                        }
                    }
                    coder.write_value(w, 0, draw_residual(rng, m.zero_bias, maxv));
                    written += 1;
                }
            }
        }
        // one coded run per sub-image, even when it has no samples (the decoder still reads the ANS state)
        coder.end_session(w);
    }

    /// One Modular sub-image section body (header + optional local tree + samples).
    fn write_subimage(&self, w: &mut BitWriter, f: &FrameSpec, chans: &[Chan], rng: &mut Rng, salt: u64) {
        let m = &f.modular;
        let use_global = m.groups_use_global && m.global.is_some();
        self.write_modular_header(w, use_global, m, &[]);
        let ma = if use_global {
            m.global.as_ref().unwrap()
        } else {
            self.write_tree(w, &m.local);
            &m.local
        };
        self.write_samples(w, m, ma, chans, rng, salt);
    }

    fn encode_frame(&self, f: &FrameSpec, out: &mut Vec<u8>, map: &mut FrameMap) -> Result<(), String> {
        let m = &f.modular;
        let base = self.base_channels(f);
        let (chans, nb_meta) = apply_transforms(&base, &m.transforms).ok_or("transform not applicable")?;
        let lay = section_layout(self, f, &chans, nb_meta).ok_or("layout not representable")?;
        let mut rng = Rng::new(m.data_seed);

        // --- LfGlobal
        let mut lf_global = BitWriter::new();
        if let Some(p) = &f.patches {
            p.write(&mut lf_global, self);
        }
        if let Some(sp) = &f.splines {
            sp.write(&mut lf_global);
        }
        if let Some(lut) = &f.noise {
            for v in lut {
                lf_global.w(*v as u64, 10);
            }
        }
        lf_global.bool(true); // lf_dequant all_default
        let vd = f.vardct.as_ref();
        let mut vrng = Rng::new(vd.map(|v| v.seed).unwrap_or(0));
        if let Some(vd) = vd {
            self.vardct_lf_global(&mut lf_global, vd);
        }
        lf_global.bool(m.global.is_some());
        if let Some(g) = &m.global {
            self.write_tree(&mut lf_global, g);
        }
        // the GlobalModular image has no channels at all for a VarDCT frame without extra
        // channels: then not even its header is coded
        if !base.is_empty() {
            let g_use_global = m.gmodular_use_global && m.global.is_some();
            self.write_modular_header(&mut lf_global, g_use_global, m, &m.transforms);
            let gma = if g_use_global {
                m.global.as_ref().unwrap()
            } else {
                self.write_tree(&mut lf_global, &m.local);
                &m.local
            };
            self.write_samples(&mut lf_global, m, gma, &lay.global, &mut rng, 0);
        }

        let (cw, chh) = self.color_sample_dims(f);
        let groups_per_row = cw.div_ceil(128 << f.group_size_shift);
        // per LF group: (LfCoeff bits, modular bits, HfMetadata bits); varblocks keyed by group
        let mut lf_sections: Vec<BitWriter> = Vec::new();
        let mut group_blocks: Vec<Vec<vardct::Block>> = vec![Vec::new(); lay.num_groups as usize];
        for (i, g) in lay.lf_groups.iter().enumerate() {
            let mut w = BitWriter::new();
            let geom = vd.map(|_| vardct::lf_group_geom(cw, chh, i as u32));
            if let (Some(vd), Some(geom)) = (vd, &geom) {
                if !vd.use_lf_frame {
                    self.vardct_lf_coeff(&mut w, &mut vrng, vd, geom);
                }
            }
            if !g.is_empty() {
                self.write_subimage(&mut w, f, g, &mut rng, 100 + i as u64);
            }
            if let (Some(vd), Some(geom)) = (vd, &geom) {
                let blocks = self.vardct_hf_metadata(&mut w, &mut vrng, vd, geom);
                for b in blocks {
                    let gcol = geom.col * 8 + b.x / 32;
                    let grow = geom.row * 8 + b.y / 32;
                    group_blocks[(grow * groups_per_row + gcol) as usize].push(b);
                }
            }
            lf_sections.push(w);
        }
        let mut hf_global = BitWriter::new();
        let coeff_coder = vd.map(|vd| self.vardct_hf_global(&mut hf_global, &mut vrng, vd, lay.num_groups, f.passes.num_passes));
        let mut pass_sections: Vec<Vec<BitWriter>> = Vec::new();
        for (p, groups) in lay.pass_groups.iter().enumerate() {
            let mut v = Vec::new();
            for (i, g) in groups.iter().enumerate() {
                let mut w = BitWriter::new();
                if let (Some(vd), Some(coder)) = (vd, &coeff_coder) {
                    let mut bl: Vec<&vardct::Block> = group_blocks[i].iter().collect();
                    bl.sort_by_key(|b| (b.y, b.x));
                    self.vardct_pass_group(&mut w, &mut vrng, vd, coder, &bl);
                }
                if !g.is_empty() {
                    self.write_subimage(&mut w, f, g, &mut rng, 10_000 + (p as u64) * 100_000 + i as u64);
                }
                v.push(w);
            }
            pass_sections.push(v);
        }

        let single = lay.num_groups == 1 && f.passes.num_passes == 1;
        let mut sections: Vec<Vec<u8>> = Vec::new();
        if single {
            // one section: the parts follow each other without byte alignment
            let mut w = lf_global;
            w.append(&lf_sections[0]);
            w.append(&hf_global);
            w.append(&pass_sections[0][0]);
            sections.push(w.finish());
        } else {
            sections.push(lf_global.finish());
            for w in lf_sections {
                sections.push(w.finish());
            }
            sections.push(hf_global.finish());
            for v in pass_sections {
                for w in v {
                    sections.push(w.finish());
                }
            }
        }

        // --- header + TOC
        let mut w = BitWriter::new();
        self.write_frame_header(&mut w, f);
        let n = sections.len();
        let mut order: Vec<usize> = (0..n).collect(); // bitstream position -> original index
        if f.toc_permuted && n > 1 {
            let mut r = Rng::new(f.toc_perm_seed);
            r.shuffle(&mut order);
            // permutation[original] = bitstream position
            let mut perm = vec![0usize; n];
            for (pos, &orig) in order.iter().enumerate() {
                perm[orig] = pos;
            }
            w.bool(true);
            // Lehmer code of `perm`
            let mut temp: Vec<usize> = (0..n).collect();
            let mut lehmer = Vec::with_capacity(n);
            for &p in &perm {
                let idx = temp.iter().position(|&t| t == p).unwrap();
                lehmer.push(idx as u32);
                temp.remove(idx);
            }
            // drop trailing zeros
            let mut end = n;
            while end > 0 && lehmer[end - 1] == 0 {
                end -= 1;
            }
            let coder = Coder::random(&mut r, 8, n as u32, false);
            coder.write_header(&mut w);
            let ctx = |x: u32| -> u32 { ((x + 1).next_power_of_two().trailing_zeros()).min(7) };
            coder.write_value(&mut w, ctx(n as u32), end as u32);
            let mut prev = 0u32;
            for &l in &lehmer[..end] {
                coder.write_value(&mut w, ctx(prev), l);
                prev = l;
            }
            coder.end_session(&mut w);
        } else {
            w.bool(false);
        }
        w.pad();
        // sizes are listed in bitstream order
        for &orig in &order {
            w.u32([(0, 10), (1024, 14), (17408, 22), (4211712, 30)], sections[orig].len() as u32, None);
        }
        w.pad();
        let head = w.finish();

        map.start = out.len();
        map.toc_start = out.len(); // refined below is not needed: header and TOC are parsed together
        out.extend_from_slice(&head);
        map.data_start = out.len();
        for &orig in &order {
            map.sections.push((out.len(), sections[orig].len()));
            out.extend_from_slice(&sections[orig]);
        }
        map.end = out.len();
        Ok(())
    }

    /// Drops the transform list of any frame whose transforms no longer apply to its channel layout
    /// (late adjustments of a random frame — safe-mode rules, VarDCT conversion — can change channel
    /// dimensions after the transforms were validated).
    pub fn fix_transforms(&mut self) {
        let n = self.frames.len();
        for i in 0..n + self.preview.is_some() as usize {
            let f = if i < n { self.frames[i].clone() } else { (**self.preview.as_ref().unwrap()).clone() };
            let base = self.base_channels(&f);
            let ok = match apply_transforms(&base, &f.modular.transforms) {
                Some((chs, nb_meta)) => chs.iter().all(|c| c.w > 0 && c.h > 0) && section_layout(self, &f, &chs, nb_meta).is_some(),
                None => false,
            };
            if !ok {
                if i < n {
                    self.frames[i].modular.transforms.clear();
                } else {
                    self.preview.as_mut().unwrap().modular.transforms.clear();
                }
            }
        }
    }

    /// Rebuilds derived tables (prefix-code words) after deserialisation.
    pub fn rebuild(&mut self) {
        for f in self.frames.iter_mut().chain(self.preview.iter_mut().map(|b| &mut **b)) {
            for ma in f.modular.global.iter_mut().chain(std::iter::once(&mut f.modular.local)) {
                ma.tree_coder.rebuild();
                ma.coder.rebuild();
            }
        }
    }

    /// Encodes the whole codestream.
    pub fn encode(&self) -> Result<(Vec<u8>, StreamMap), String> {
        let mut w = BitWriter::new();
        self.write_image_header(&mut w);
        let mut out = w.finish();
        let mut map = StreamMap { header_end: out.len(), ..Default::default() };
        if let Some(pf) = &self.preview {
            // the decoder parses the preview frame with the main image header as context and skips
            // header + TOC + total section size
            let mut fm = FrameMap::default();
            self.encode_frame(pf, &mut out, &mut fm)?;
            map.preview = Some(fm);
        }
        for f in &self.frames {
            let mut fm = FrameMap::default();
            self.encode_frame(f, &mut out, &mut fm)?;
            map.frames.push(fm);
        }
        map.len = out.len();
        Ok((out, map))
    }
}

fn draw_residual(rng: &mut Rng, zero_bias: u32, maxv: u32) -> u32 {
    if maxv == 0 || rng.below(100) < zero_bias as u64 {
        return 0;
    }
    match rng.below(8) {
        0..=4 => rng.below(maxv.min(8) as u64 + 1) as u32,
        5 | 6 => rng.below(maxv.min(64) as u64 + 1) as u32,
        _ => rng.below(maxv as u64 + 1) as u32,
    }
}

/// Deterministic sample function for `SampleMode::Known`.
pub fn known_sample(bit_depth: u32, salt: u64, ci: u32, x: u32, y: u32, w: u32, h: u32) -> i32 {
    let max = (1i64 << bit_depth.min(15)) - 1;
    let fx = x as i64 * max / w.max(1) as i64;
    let fy = y as i64 * max / h.max(1) as i64;
    let mut s = salt.wrapping_mul(0x9E3779B97F4A7C15) ^ ((ci as u64) << 48) ^ ((x as u64) << 24) ^ y as u64;
    let n = (crate::rng::splitmix64(&mut s) % 17) as i64 - 8;
    let v = match ci % 4 {
        0 => fx,
        1 => fy,
        2 => (fx + fy) / 2,
        _ => max - fx / 2,
    } + n;
    // a few values outside the nominal range so that clamping matters
    let v = if (x + y + ci) % 29 == 0 { v + max / 3 } else if (x * 3 + y) % 31 == 0 { v - max / 2 } else { v };
    v.clamp(-(max / 2), max + max / 2) as i32
}

pub mod random;
