//! jxlsim — deterministic simulation harness for jxl-oxide (see /verif/DESIGN.md).
mod bits;
mod checks;
mod harness;
mod hexbytes;
mod jxlgen;
mod observe;
mod pool;
mod rng;
mod simio;

use harness::{Stats, Tier, Violation};
use std::io::Write;

fn arg<'a>(args: &'a [String], name: &str) -> Option<&'a str> {
    args.iter().position(|a| a == name).and_then(|i| args.get(i + 1)).map(|s| s.as_str())
}

fn main() {
    let args: Vec<String> = std::env::args().collect();
    let code = match args.get(1).map(|s| s.as_str()) {
        Some("run") => cmd_run(&args),
        Some("replay") => cmd_replay(&args),
        Some("miri-run") => cmd_miri_run(&args),
        Some("gen-selftest") => cmd_gen_selftest(&args),
        Some("exp-c06") => cmd_exp_c06(&args),
        Some("c05-debug") => {
            let v: Violation = serde_json::from_str(&std::fs::read_to_string(&args[2]).unwrap()).unwrap();
            let sc: checks::c05::Scenario = serde_json::from_value(v.scenario).unwrap();
            checks::c05::debug(&sc, args[3].parse().unwrap(), args[4].parse().unwrap(), args[5].parse().unwrap());
            0
        }
        Some("scenario-dump") => {
            let tier = if arg(&args, "--tier") == Some("thorough") { Tier::Thorough } else { Tier::Quick };
            println!("{}", checks::scenario_json(&args[2], args[3].parse().unwrap(), tier));
            0
        }
        Some("gen-dump") => cmd_gen_dump(&args),
        Some("c07-debug") => {
            // triage helper: render every keyframe of a C07 replay with no pool and with the simulated pool
            let v: Violation = serde_json::from_str(&std::fs::read_to_string(&args[2]).unwrap()).unwrap();
            let sc: checks::c07::Scenario = serde_json::from_value(v.scenario).unwrap();
            let bytes = &sc.case.bytes;
            let show = |name: &str, pool: jxl_oxide::JxlThreadPool, pp: Option<&std::sync::Arc<pool::PermutePool>>| {
                let img = checks::common::load_chunked(bytes, &simio::ChunkSchedule::whole(bytes.len()), None, pool).unwrap();
                for k in 0..img.num_loaded_keyframes() {
                    let r = img.render_frame(k);
                    if let Some(p) = pp {
                        p.drain_some();
                    }
                    match r {
                        Ok(_) => println!("{name}: keyframe {k}: Ok"),
                        Err(e) => {
                            let mut chain = format!("{e}");
                            let mut src = std::error::Error::source(&*e);
                            while let Some(s2) = src {
                                chain.push_str(&format!(" <- {s2}"));
                                src = s2.source();
                            }
                            println!("{name}: keyframe {k}: Err {chain}");
                        }
                    }
                }
                for i in 0..img.num_loaded_frames() {
                    let h = img.frame(i).unwrap().header();
                    println!("  frame {i}: {:?} keyframe={} lf_level={} use_lf={}", h.frame_type, h.is_keyframe(), h.lf_level, h.flags.use_lf_frame());
                }
            };
            show("no pool", jxl_oxide::JxlThreadPool::none(), None);
            for &ps in &sc.pool_seeds {
                let pp = pool::PermutePool::new(ps);
                show("simulated pool", jxl_oxide::JxlThreadPool::verif(pp.clone() as std::sync::Arc<dyn jxl_threadpool::verif::VerifPool>), Some(&pp));
            }
            0
        }
        _ => {
            eprintln!("usage: jxlsim run --check <c> --start S --count N --tier quick|thorough --out DIR --worker K [--max-secs T] [--log FILE]\n       jxlsim replay <file>");
            2
        }
    };
    std::process::exit(code);
}

fn cmd_run(args: &[String]) -> i32 {
    let check = arg(args, "--check").expect("--check").to_string();
    let start: u64 = arg(args, "--start").unwrap_or("0").parse().unwrap();
    let count: u64 = arg(args, "--count").unwrap_or("100").parse().unwrap();
    let tier = if arg(args, "--tier") == Some("thorough") { Tier::Thorough } else { Tier::Quick };
    let out = arg(args, "--out").expect("--out").to_string();
    let worker: u32 = arg(args, "--worker").unwrap_or("0").parse().unwrap();
    let max_secs: f64 = arg(args, "--max-secs").unwrap_or("1e9").parse().unwrap();
    let stride: u64 = arg(args, "--stride").unwrap_or("1").parse().unwrap();
    let log_path = arg(args, "--log").map(|s| s.to_string());
    std::fs::create_dir_all(&out).ok();
    if std::env::var("VERIF_LOUD_PANIC").is_err() {
        harness::install_panic_hook();
    }

    let cur_path = format!("{out}/cur-{worker}");
    let mut cur = std::fs::OpenOptions::new().create(true).write(true).truncate(true).open(&cur_path).unwrap();
    let mut log = log_path.map(|p| std::io::BufWriter::new(std::fs::File::create(p).unwrap()));
    let t0 = std::time::Instant::now();
    let mut stats = Stats::default();
    let mut violations: Vec<Violation> = Vec::new();
    let mut seeds_done = 0u64;
    let mut harness_errors: Vec<String> = Vec::new();
    let mut i = 0u64;
    while i < count {
        let seed = start + i * stride;
        i += 1;
        if t0.elapsed().as_secs_f64() > max_secs {
            break;
        }
        {
            use std::os::unix::fs::FileExt;
            cur.write_all_at(&seed.to_le_bytes(), 0).ok();
        }
        let before = stats.evaluations;
        let r = std::panic::catch_unwind(std::panic::AssertUnwindSafe(|| checks::run_seed(&check, seed, tier, &mut stats)));
        seeds_done += 1;
        match r {
            Ok(Ok(digest)) => {
                if let Some(l) = &mut log {
                    writeln!(l, "{seed} {digest:016x}").ok();
                }
            }
            Ok(Err(v)) => {
                if let Some(l) = &mut log {
                    writeln!(l, "{seed} VIOLATION {}", v.class).ok();
                }
                if !violations.iter().any(|x| x.class == v.class) && violations.len() < 6 {
                    let v = checks::minimise(&check, v);
                    violations.push(v);
                }
            }
            Err(p) => {
                // a panic that escaped the check's own isolation: the harness is at fault unless
                // the location is inside /repo (then the check did not isolate a decoder call)
                let loc = harness::last_panic_location();
                let msg = harness::panic_message(&*p);
                if harness_errors.len() < 5 {
                    harness_errors.push(format!("seed {seed}: escaped panic at {loc}: {msg}"));
                }
            }
        }
        if stats.evaluations == before {
            stats.evaluations += 0;
        }
    }
    if let Some(l) = &mut log {
        l.flush().ok();
    }
    let result = serde_json::json!({
        "check": check,
        "worker": worker,
        "start": start,
        "stride": stride,
        "seeds_done": seeds_done,
        "wall_s": t0.elapsed().as_secs_f64(),
        "stats": stats,
        "violations": violations,
        "harness_errors": harness_errors,
    });
    std::fs::write(format!("{out}/worker-{worker}.json"), serde_json::to_vec(&result).unwrap()).unwrap();
    std::fs::remove_file(&cur_path).ok();
    0
}

fn cmd_replay(args: &[String]) -> i32 {
    let path = &args[2];
    if std::env::var("VERIF_LOUD_PANIC").is_err() {
        harness::install_panic_hook();
    }
    let text = match std::fs::read_to_string(path) {
        Ok(t) => t,
        Err(e) => {
            eprintln!("cannot read {path}: {e}");
            return 2;
        }
    };
    let v: Violation = match serde_json::from_str(&text) {
        Ok(v) => v,
        Err(e) => {
            eprintln!("cannot parse {path}: {e}");
            return 2;
        }
    };
    let mut stats = Stats::default();
    let r = std::panic::catch_unwind(std::panic::AssertUnwindSafe(|| checks::replay(&v, &mut stats)));
    match r {
        Ok(Ok(())) => {
            println!("NOT-REPRODUCED property={} class={}", v.property, v.class);
            0
        }
        Ok(Err(found)) => {
            if found.class == v.class {
                println!("REPRODUCED property={} class={} detail={}", found.property, found.class, found.detail);
            } else {
                println!("REPRODUCED-DIFFERENT property={} class={} (recorded {}) detail={}", found.property, found.class, v.class, found.detail);
            }
            1
        }
        Err(p) => {
            println!("HARNESS-PANIC at {}: {}", harness::last_panic_location(), harness::panic_message(&*p));
            2
        }
    }
}

fn decode_oneshot(bytes: &[u8]) -> Result<usize, String> {
    let sched = simio::ChunkSchedule::whole(bytes.len());
    let image = checks::common::load_chunked(bytes, &sched, None, jxl_oxide::JxlThreadPool::none())?;
    if !image.is_loading_done() {
        return Err(format!("loading not done: frames={}", image.num_loaded_frames()));
    }
    let n = image.num_loaded_keyframes();
    for k in 0..n {
        let r = image.render_frame(k).map_err(|e| format!("render {k}: {e}"))?;
        let _ = r.image_all_channels();
    }
    Ok(n)
}

fn selftest_program(seed: u64) -> jxlgen::Program {
    let mut rng = rng::Rng::new(rng::derive(seed, 1, 0));
    let cfg = if seed % 3 == 0 { jxlgen::random::GenConfig::medium() } else { jxlgen::random::GenConfig::small() };
    let mut cfg = cfg.swarm(&mut rng);
    cfg.vardct = std::env::var("SELFTEST_VARDCT").is_ok();
    jxlgen::random::random_program(&mut rng, &cfg)
}

fn cmd_gen_selftest(args: &[String]) -> i32 {
    harness::install_panic_hook();
    let a: u64 = args[2].parse().unwrap();
    let b: u64 = args[3].parse().unwrap();
    let mut errs = std::collections::BTreeMap::<String, (usize, u64)>::new();
    let mut ok = 0;
    for seed in a..b {
        let prog = selftest_program(seed);
        let (bytes, _map) = match prog.encode() {
            Ok(x) => x,
            Err(e) => {
                errs.entry(format!("ENCODE {e}")).or_insert((0, seed)).0 += 1;
                continue;
            }
        };
        if let jxlgen::icc::ColourSpec::Icc(spec) = &prog.colour {
            // the embedded profile must come back byte for byte
            let want = spec.profile(prog.gray && !prog.xyb);
            let got = checks::common::load_chunked(&bytes, &simio::ChunkSchedule::whole(bytes.len()), None, jxl_oxide::JxlThreadPool::none()).ok().and_then(|i| i.original_icc().map(|x| x.to_vec()));
            if got.as_deref() != Some(&want[..]) {
                errs.entry(format!("ICC-MISMATCH style={}", spec.style)).or_insert((0, seed)).0 += 1;
                continue;
            }
            *errs.entry(format!("(info) icc style {} round-trips", spec.style)).or_insert((0, seed)) = (errs.get(&format!("(info) icc style {} round-trips", spec.style)).map(|x| x.0).unwrap_or(0) + 1, seed);
        }
        match std::panic::catch_unwind(|| decode_oneshot(&bytes)) {
            Ok(Ok(_)) => ok += 1,
            Ok(Err(e)) => errs.entry(e).or_insert((0, seed)).0 += 1,
            Err(_) => {
                if std::env::var("PRINT_PANIC_SEEDS").is_ok() {
                    println!("PANICSEED {seed} {}", harness::last_panic_location());
                }
                errs.entry("PANIC".into()).or_insert((0, seed)).0 += 1
            }
        }
    }
    println!("ok={ok}");
    for (e, (n, s)) in errs {
        println!("{n:6} first_seed={s} {e}");
    }
    0
}

fn cmd_gen_dump(args: &[String]) -> i32 {
    let seed: u64 = args[2].parse().unwrap();
    let prog = selftest_program(seed);
    println!("{}", serde_json::to_string_pretty(&prog).unwrap());
    if let Ok((bytes, map)) = prog.encode() {
        println!("{} bytes; map={:?}", bytes.len(), map);
        if let Some(p) = args.get(3) {
            std::fs::write(p, &bytes).unwrap();
        }
        println!("{:?}", decode_oneshot(&bytes));
    }
    0
}

fn add_alpha(p: &mut jxlgen::Program, mode: jxlgen::BlendMode, ec_add: bool) {
    use jxlgen::*;
    p.extra.push(EcSpec { kind: EcKind::Alpha { associated: false }, bits: 8, dim_shift: 0, name: String::new(), default_form: false });
    let f = &mut p.frames[0];
    f.ec_upsampling = vec![1];
    f.blend = BlendSpec { mode, alpha_channel: 0, clamp: false, source: 1 };
    f.ec_blend = vec![BlendSpec { mode: if ec_add { BlendMode::Add } else { BlendMode::Replace }, alpha_channel: 0, clamp: false, source: 1 }];
}

/// Triage helper: ROI equality on hand-made programs with single features toggled.
fn cmd_exp_c06(_args: &[String]) -> i32 {
    use jxlgen::*;
    harness::install_panic_hook();
    let variants: Vec<(&str, Box<dyn Fn(&mut Program)>)> = vec![
        ("plain", Box::new(|_p| {})),
        ("gab", Box::new(|p| p.frames[0].gab = GabSpec::Default)),
        ("epf1", Box::new(|p| p.frames[0].epf = Some(EpfSpec { iters: 1, weight_custom: None, sigma_custom: None, sigma_for_modular: 1.0 }))),
        ("epf2", Box::new(|p| p.frames[0].epf = Some(EpfSpec { iters: 2, weight_custom: None, sigma_custom: None, sigma_for_modular: 1.0 }))),
        ("epf3", Box::new(|p| p.frames[0].epf = Some(EpfSpec { iters: 3, weight_custom: None, sigma_custom: None, sigma_for_modular: 1.0 }))),
        ("muladd", Box::new(|p| p.frames[0].blend = BlendSpec { mode: BlendMode::MulAdd, alpha_channel: 0, clamp: false, source: 1 })),
        ("add", Box::new(|p| p.frames[0].blend = BlendSpec { mode: BlendMode::Add, alpha_channel: 0, clamp: false, source: 1 })),
        ("gab+add", Box::new(|p| { p.frames[0].gab = GabSpec::Default; p.frames[0].blend = BlendSpec { mode: BlendMode::Add, alpha_channel: 0, clamp: false, source: 1 } })),
        ("epf2+add", Box::new(|p| { p.frames[0].epf = Some(EpfSpec { iters: 2, weight_custom: None, sigma_custom: None, sigma_for_modular: 1.0 }); p.frames[0].blend = BlendSpec { mode: BlendMode::Add, alpha_channel: 0, clamp: false, source: 1 } })),
        ("orient5", Box::new(|p| p.orientation = 5)),
        ("orient5+gab", Box::new(|p| { p.orientation = 5; p.frames[0].gab = GabSpec::Default })),
        ("gray+gab", Box::new(|p| { p.gray = true; p.frames[0].gab = GabSpec::Default })),
        ("alpha", Box::new(|p| add_alpha(p, BlendMode::Replace, false))),
        ("alpha+gab", Box::new(|p| { add_alpha(p, BlendMode::Replace, false); p.frames[0].gab = GabSpec::Default })),
        ("alpha+add", Box::new(|p| add_alpha(p, BlendMode::Add, false))),
        ("alpha+blend", Box::new(|p| add_alpha(p, BlendMode::Blend, false))),
        ("alpha+muladd", Box::new(|p| add_alpha(p, BlendMode::MulAdd, false))),
        ("alpha+gab+add", Box::new(|p| { add_alpha(p, BlendMode::Add, false); p.frames[0].gab = GabSpec::Default })),
        ("alpha+gab+muladd", Box::new(|p| { add_alpha(p, BlendMode::MulAdd, false); p.frames[0].gab = GabSpec::Default })),
        ("alpha+gab+blend", Box::new(|p| { add_alpha(p, BlendMode::Blend, false); p.frames[0].gab = GabSpec::Default })),
        ("alpha+epf+blend", Box::new(|p| { add_alpha(p, BlendMode::Blend, false); p.frames[0].epf = Some(EpfSpec { iters: 2, weight_custom: None, sigma_custom: None, sigma_for_modular: 1.0 }) })),
        ("alpha+gab+ecadd", Box::new(|p| { add_alpha(p, BlendMode::Replace, true); p.frames[0].gab = GabSpec::Default })),
        ("up2", Box::new(|p| p.frames[0].upsampling = 2)),
        ("up2+add", Box::new(|p| { p.frames[0].upsampling = 2; p.frames[0].blend = BlendSpec { mode: BlendMode::Add, alpha_channel: 0, clamp: false, source: 1 } })),
    ];
    for (name, f) in variants {
        let mut bad = 0;
        let mut total = 0;
        let mut first = String::new();
        for (w, h) in [(40u32, 33u32), (150, 140), (31, 320)] {
            let mut p = jxlgen::random::minimal_program(w, h, 5);
            f(&mut p);
            let Ok((bytes, _)) = p.encode() else { continue };
            let sched = simio::ChunkSchedule::whole(bytes.len());
            let Ok(full_img) = checks::common::load_chunked(&bytes, &sched, None, jxl_oxide::JxlThreadPool::none()) else { println!("{name}: load failed"); continue };
            let Ok(fr) = full_img.render_frame(0) else { println!("{name}: full render failed"); continue };
            let fullp: Vec<Vec<f32>> = fr.image_planar().iter().map(|x| x.buf().to_vec()).collect();
            let (iw, ih) = (full_img.width(), full_img.height());
            let mut img = checks::common::load_chunked(&bytes, &sched, None, jxl_oxide::JxlThreadPool::none()).unwrap();
            for (l, t, rw, rh) in [(3u32, 2u32, 5u32, 7u32), (iw / 2, ih / 2, 2, 9), (0, 0, iw, 1), (iw - 1, ih - 1, 1, 1), (10, 1, 17, 20)] {
                let rw = rw.min(iw - l);
                let rh = rh.min(ih - t);
                img.set_image_region(jxl_oxide::CropInfo { left: l, top: t, width: rw, height: rh });
                total += 1;
                let r = std::panic::catch_unwind(std::panic::AssertUnwindSafe(|| img.render_frame(0)));
                match r {
                    Err(_) => { bad += 1; if first.is_empty() { first = format!("PANIC {w}x{h} region {l},{t} {rw}x{rh} at {}", harness::last_panic_location()); } }
                    Ok(Err(e)) => { bad += 1; if first.is_empty() { first = format!("ERR {e}"); } }
                    Ok(Ok(r)) => {
                        let gp: Vec<Vec<f32>> = r.image_planar().iter().map(|x| x.buf().to_vec()).collect();
                        let mut diff = false;
                        'o: for (c, (g, wv)) in gp.iter().zip(&fullp).enumerate() {
                            for y in 0..rh as usize {
                                for x in 0..rw as usize {
                                    let a = wv[(t as usize + y) * iw as usize + l as usize + x];
                                    let b = g[y * rw as usize + x];
                                    if (a - b).abs() > 1e-6 {
                                        diff = true;
                                        if first.is_empty() { first = format!("DIFF {w}x{h} region {l},{t} {rw}x{rh} c={c} x={x} y={y}: {b} vs full {a}"); }
                                        break 'o;
                                    }
                                }
                            }
                        }
                        if diff { bad += 1; }
                    }
                }
            }
        }
        println!("{name:12} bad {bad}/{total} {first}");
    }
    0
}

/// C02, Miri leg: executes small C02 scenarios directly (no watchdog threads); the detector is
/// Miri itself (UB / data race => abnormal exit). Prints `RUN <seed>` before each scenario so the
/// supervisor can attribute a report, and a summary line at the end.
fn cmd_miri_run(args: &[String]) -> i32 {
    let start: u64 = arg(args, "--start").unwrap_or("0").parse().unwrap();
    let count: u64 = arg(args, "--count").unwrap_or("4").parse().unwrap();
    let stride: u64 = arg(args, "--stride").unwrap_or("1").parse().unwrap();
    let max_run: u64 = arg(args, "--max-run").unwrap_or("2").parse().unwrap();
    std::panic::set_hook(Box::new(|_| {}));
    let mut stats = Stats::default();
    let mut ran = 0u64;
    let mut i = 0u64;
    let mut seeds = Vec::new();
    while i < count && ran < max_run {
        let seed = start + i * stride;
        i += 1;
        let Some(sc) = checks::c02::generate_small(seed) else { continue };
        println!("RUN {seed} origin={} len={} pool={} wide={}", sc.inner.origin, sc.inner.bytes.len(), sc.inner.pool_threads, sc.inner.force_wide);
        let _ = checks::c02::execute(seed, &sc, &mut stats);
        seeds.push(seed);
        ran += 1;
    }
    println!("MIRI-SUMMARY {}", serde_json::json!({"ran": ran, "seeds": seeds, "probes": stats.probes, "faults": stats.faults_fired, "distinct": stats.distinct.len()}));
    0
}
