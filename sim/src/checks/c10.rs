//! C10 — container framing: codestream and boxes are recovered for every layout and chunking.
use crate::harness::{Stats, Tier, Violation};
use crate::jxlgen::container::*;
use crate::jxlgen::random::{GenConfig, random_program};
use crate::observe::{RenderObs, observe_full};
use crate::rng::{Rng, derive};
use crate::simio::{ALL_CHUNK_KINDS, ChunkKind, ChunkSchedule, FeedDriver};
use jxl_bitstream::{BitstreamKind, ContainerParser, ParseEvent};
use serde::{Deserialize, Serialize};

#[derive(Clone, Debug, Serialize, Deserialize)]
pub struct Scenario {
    pub spec: ContainerSpec,
    pub enc_seed: u64,
    #[serde(with = "crate::hexbytes")]
    pub bytes: Vec<u8>,
    pub map: BoxMap,
    pub schedules: Vec<ChunkSchedule>,
    /// the codestream is a real image: also check at `JxlImage` level
    pub real_codestream: bool,
}

#[derive(Debug, Default, PartialEq, Eq, Clone)]
pub struct AuxSeen {
    pub ty: [u8; 4],
    pub brotli: bool,
    pub last: bool,
    pub data: Vec<u8>,
    pub ended: bool,
}

#[derive(Debug, Default)]
pub struct ParserRun {
    pub codestream: Vec<u8>,
    pub aux: Vec<AuxSeen>,
    pub kinds: Vec<String>,
    pub error: Option<(String, usize)>,
    pub leftover: usize,
    pub protocol_error: Option<String>,
}

pub fn run_parser(bytes: &[u8], schedule: &ChunkSchedule) -> ParserRun {
    let mut parser = ContainerParser::new();
    let mut run = ParserRun::default();
    let mut driver = FeedDriver::new(bytes);
    let mut sizes = schedule.sizes.clone();
    sizes.push(0); // one more offer with nothing new: must be harmless
    'outer: for n in sizes {
        let before = driver.delivered();
        let res = driver.deliver(n, |buf| -> Result<usize, String> {
            let mut in_box = run.aux.last().map(|a| !a.ended).unwrap_or(false);
            for ev in parser.feed_bytes(buf) {
                match ev {
                    Err(e) => return Err(format!("{e:?}")),
                    Ok(ParseEvent::BitstreamKind(k)) => run.kinds.push(format!("{k:?}")),
                    Ok(ParseEvent::Codestream(b)) => run.codestream.extend_from_slice(b),
                    Ok(ParseEvent::NoMoreAuxBox) => run.kinds.push("NoMoreAuxBox".into()),
                    Ok(ParseEvent::AuxBoxStart { ty, brotli_compressed, last_box }) => {
                        if in_box {
                            run.protocol_error = Some("AuxBoxStart inside an open box".into());
                        }
                        run.aux.push(AuxSeen { ty: ty.0, brotli: brotli_compressed, last: last_box, data: Vec::new(), ended: false });
                        in_box = true;
                    }
                    Ok(ParseEvent::AuxBoxData(ty, b)) => match run.aux.last_mut() {
                        Some(a) if !a.ended && a.ty == ty.0 => a.data.extend_from_slice(b),
                        _ => run.protocol_error = Some("AuxBoxData without a matching open box".into()),
                    },
                    Ok(ParseEvent::AuxBoxEnd(ty)) => match run.aux.last_mut() {
                        Some(a) if !a.ended && a.ty == ty.0 => {
                            a.ended = true;
                            in_box = false;
                        }
                        _ => run.protocol_error = Some("AuxBoxEnd without a matching open box".into()),
                    },
                }
            }
            let c = parser.previous_consumed_bytes();
            if c > buf.len() {
                return Err(format!("PROTOCOL consumed {c} > offered {}", buf.len()));
            }
            Ok(c)
        });
        if let Err(e) = res {
            if e.starts_with("PROTOCOL") {
                run.protocol_error = Some(e);
            } else {
                run.error = Some((e, before));
            }
            break 'outer;
        }
    }
    run.leftover = driver.pending.len();
    let _ = BitstreamKind::Container;
    run
}

fn expected_raw_aux(sc: &Scenario) -> Vec<AuxSeen> {
    // ground truth from the constructed layout: boxes in file order
    let mut out = Vec::new();
    // map.boxes: [sig, (ftyp), (jxll), spec.boxes...]
    let fixed = 1 + sc.spec.with_ftyp as usize + sc.spec.level.is_some() as usize;
    if sc.spec.with_ftyp {
        let (_, _, p, e) = sc.map.boxes[1];
        out.push(AuxSeen { ty: *b"ftyp", brotli: false, last: false, data: sc.bytes[p..e].to_vec(), ended: true });
    }
    if sc.spec.level.is_some() {
        let (_, _, p, e) = sc.map.boxes[1 + sc.spec.with_ftyp as usize];
        out.push(AuxSeen { ty: *b"jxll", brotli: false, last: false, data: sc.bytes[p..e].to_vec(), ended: true });
    }
    for (i, b) in sc.spec.boxes.iter().enumerate() {
        if let BoxKind::Aux { ty, brob } = &b.kind {
            let (_, _, p, e) = sc.map.boxes[fixed + i];
            let p = if *brob { p + 4 } else { p };
            let to_eof = b.size == SizeForm::ToEof;
            out.push(AuxSeen { ty: *ty, brotli: *brob, last: to_eof, data: sc.bytes[p.min(e)..e].to_vec(), ended: !to_eof });
        }
    }
    out
}

pub fn generate(seed: u64, tier: Tier) -> Scenario {
    let mut rng = Rng::new(derive(seed, 10, 0));
    // codestream: a real small image in 1/3 of runs, random bytes otherwise (the parser is agnostic)
    let real = rng.chance(1, 3);
    let (codestream, hints) = if real {
        let cfg = GenConfig { max_dim: 24, max_frames: 2, max_pixels: 24 * 24, ..GenConfig::small() }.swarm(&mut rng);
        let prog = random_program(&mut rng, &cfg);
        match prog.encode() {
            Ok((b, m)) => (b, m.structural_offsets()),
            Err(_) => (vec![0xff, 0x0a, 0, 1, 2, 3], vec![]),
        }
    } else {
        let n = *rng.pick(&[0usize, 1, 2, 3, 10, 100, 1000, 5000]);
        let mut v: Vec<u8> = (0..n).map(|_| rng.next_u32() as u8).collect();
        if v.len() >= 2 {
            v[0] = 0xff;
            v[1] = 0x0a;
        }
        (v, vec![])
    };
    let mut spec = random_container(&mut rng, &codestream, &hints);
    let mut real_codestream = real;
    if rng.chance(1, 3) {
        let ill = *rng.pick(&ALL_ILL);
        let mut s2 = spec.clone();
        if make_ill(&mut s2, ill, &mut rng) {
            spec = s2;
            real_codestream = false;
        }
    }
    let enc_seed = rng.next_u64();
    let (bytes, map) = spec.encode(enc_seed);
    let headers = map.inside_header_offsets();
    let structural: Vec<usize> = map.boxes.iter().flat_map(|b| [b.0, b.2, b.3]).collect();
    let n_sched = if tier == Tier::Quick { 4 } else { 8 };
    let mut schedules = vec![ChunkSchedule::whole(bytes.len())];
    // the inside-header schedule is always included
    schedules.push(ChunkSchedule::random(&mut rng, ChunkKind::InsideHeader, bytes.len(), &structural, &headers));
    if bytes.len() <= 4096 {
        schedules.push(ChunkSchedule::random(&mut rng, ChunkKind::OneByte, bytes.len(), &structural, &headers));
    }
    while schedules.len() < n_sched {
        let kind = *rng.pick(&ALL_CHUNK_KINDS);
        if kind == ChunkKind::OneByte && bytes.len() > 4096 {
            continue;
        }
        schedules.push(ChunkSchedule::random(&mut rng, kind, bytes.len(), &structural, &headers));
    }
    Scenario { spec, enc_seed, bytes, map, schedules, real_codestream }
}

fn viol(seed: u64, sc: &Scenario, class: String, detail: String) -> Violation {
    Violation { property: "C10".into(), check: "c10".into(), class, detail, seed, scenario: serde_json::to_value(sc).unwrap() }
}

pub fn execute(seed: u64, sc: &Scenario, stats: &mut Stats) -> Result<(), Violation> {
    let model = sc.spec.model();
    let expected_aux = expected_raw_aux(sc);
    let ill = sc.spec.ill;
    stats.evaluations += 1;
    let has64 = sc.spec.boxes.iter().any(|b| b.size == SizeForm::S64);
    let njxlp = sc.spec.boxes.iter().filter(|b| matches!(b.kind, BoxKind::Jxlp { .. })).count();
    let nbrob = sc.spec.boxes.iter().filter(|b| matches!(b.kind, BoxKind::Aux { brob: true, .. })).count();
    for sched in &sc.schedules {
        stats.steps += sched.sizes.len() as u64;
        stats.distinct_sig(&[&format!("{:?}", ill), &sched.kind, &has64, &njxlp.min(3), &nbrob.min(2), &sc.spec.boxes.len().min(6)]);
        stats.fault(&format!("chunking:{:?}", sched.kind));
        let run = run_parser(&sc.bytes, sched);
        if let Some(p) = &run.protocol_error {
            return Err(viol(seed, sc, format!("protocol:{}", p.split(' ').next().unwrap_or("")), format!("{p} under {:?}", sched.kind)));
        }
        if ill == Ill::None {
            if let Some((e, at)) = &run.error {
                // was a 64-bit box header offered with only 8..=15 of its 16 bytes?
                let cuts = sched.cut_offsets();
                let split64 = sc.map.boxes.iter().any(|b| b.1 == 16 && cuts.iter().any(|&c| c >= b.0 + 8 && c < b.0 + 16));
                let site = if split64 { "xlbox-header-split" } else { "other" };
                return Err(viol(
                    seed,
                    sc,
                    format!("wellformed_rejected:{site}"),
                    format!("well-formed container rejected with {e} after {at} delivered bytes under {:?} chunking (one-shot verdict may differ)", sched.kind),
                ));
            }
            if run.codestream != model.codestream {
                let first = run.codestream.iter().zip(&model.codestream).position(|(a, b)| a != b).unwrap_or(run.codestream.len().min(model.codestream.len()));
                return Err(viol(
                    seed,
                    sc,
                    "codestream_mismatch".into(),
                    format!("codestream bytes differ from the layout: got {} bytes, expected {}, first difference at {first} ({:?})", run.codestream.len(), model.codestream.len(), sched.kind),
                ));
            }
            let mut got_aux = run.aux.clone();
            let mut want_aux = expected_aux.clone();
            // AuxBoxEnd of the very last box may legitimately be deferred until more bytes arrive
            if let (Some(g), Some(w)) = (got_aux.last_mut(), want_aux.last_mut()) {
                g.ended = true;
                w.ended = true;
            }
            if got_aux != want_aux {
                return Err(viol(
                    seed,
                    sc,
                    "aux_mismatch".into(),
                    format!(
                        "aux boxes differ under {:?}: got {:?}, expected {:?}",
                        sched.kind,
                        run.aux.iter().map(|a| (String::from_utf8_lossy(&a.ty).to_string(), a.brotli, a.last, a.data.len(), a.ended)).collect::<Vec<_>>(),
                        expected_aux.iter().map(|a| (String::from_utf8_lossy(&a.ty).to_string(), a.brotli, a.last, a.data.len(), a.ended)).collect::<Vec<_>>()
                    ),
                ));
            }
            if run.kinds.first().map(|s| s.as_str()) != Some("Container") {
                return Err(viol(seed, sc, "kind".into(), format!("first event is {:?}, expected BitstreamKind(Container)", run.kinds.first())));
            }
        } else {
            stats.probe(&format!("ill:{ill:?}"));
            if run.error.is_none() {
                return Err(viol(seed, sc, format!("illformed_accepted:{ill:?}"), format!("ill-formed layout ({ill:?}) accepted without error under {:?} chunking", sched.kind)));
            }
        }
    }

    // image level
    if ill == Ill::None && sc.real_codestream {
        stats.probe("image_level");
        let reference = match decode_with(&model.codestream, &ChunkSchedule::whole(model.codestream.len())) {
            Ok(r) => r,
            Err(_) => {
                stats.generator_rejects += 1;
                return Ok(());
            }
        };
        for sched in sc.schedules.iter().take(3) {
            match decode_with(&sc.bytes, sched) {
                Err(e) => return Err(viol(seed, sc, "image_rejected".into(), format!("container around a valid codestream rejected: {e} ({:?})", sched.kind))),
                Ok((renders, exif, xml)) => {
                    for (k, (a, b)) in renders.iter().zip(&reference.0).enumerate() {
                        if let Some(d) = a.diff(b) {
                            return Err(viol(seed, sc, "image_differs".into(), format!("keyframe {k} differs from the bare codestream's: {d}")));
                        }
                    }
                    if renders.len() != reference.0.len() {
                        return Err(viol(seed, sc, "image_differs".into(), "keyframe count differs from the bare codestream's".into()));
                    }
                    // first Exif / xml payloads (decompressed) against the model
                    let want_exif = model.aux.iter().find(|a| &a.0 == b"Exif");
                    let want_xml = model.aux.iter().find(|a| &a.0 == b"xml ");
                    let exp_xml = match want_xml {
                        Some(a) => format!("Data({})", crate::hexbytes::to_hex(&a.1)),
                        None => "NotFound".to_string(),
                    };
                    if xml != exp_xml {
                        return Err(viol(seed, sc, "xml_payload".into(), format!("first xml box: got {}, expected {}", trunc(&xml), trunc(&exp_xml))));
                    }
                    let exp_exif = match want_exif {
                        Some(a) if a.1.len() >= 5 => format!("Data(off={},{})", u32::from_be_bytes([a.1[0], a.1[1], a.1[2], a.1[3]]), crate::hexbytes::to_hex(&a.1[4..])),
                        Some(_) => "Err".to_string(),
                        None => "NotFound".to_string(),
                    };
                    if exif != exp_exif && !(exp_exif.starts_with("Data") && exif == "Err" && exif_offset_invalid(want_exif.unwrap())) {
                        return Err(viol(seed, sc, "exif_payload".into(), format!("first Exif box: got {}, expected {}", trunc(&exif), trunc(&exp_exif))));
                    }
                }
            }
        }
    }
    stats.sample(serde_json::json!({
        "ill": format!("{ill:?}"),
        "boxes": sc.spec.boxes.iter().map(|b| format!("{:?}/{:?}/{}", kind_name(&b.kind), b.size, b.payload.len())).collect::<Vec<_>>(),
        "file_len": sc.bytes.len(),
        "schedules": sc.schedules.iter().map(|s| format!("{:?}x{}", s.kind, s.sizes.len())).collect::<Vec<_>>(),
    }));
    Ok(())
}

fn exif_offset_invalid(a: &([u8; 4], Vec<u8>, bool, bool)) -> bool {
    let off = u32::from_be_bytes([a.1[0], a.1[1], a.1[2], a.1[3]]) as usize;
    off >= a.1.len() - 4
}

fn trunc(s: &str) -> String {
    if s.len() > 80 { format!("{}…({} chars)", &s[..80], s.len()) } else { s.to_string() }
}

fn kind_name(k: &BoxKind) -> String {
    match k {
        BoxKind::Jxlc => "jxlc".into(),
        BoxKind::Jxlp { index_word } => format!("jxlp#{:x}", index_word),
        BoxKind::Aux { ty, brob } => format!("{}{}", String::from_utf8_lossy(ty), if *brob { "(brob)" } else { "" }),
    }
}

type Decoded = (Vec<RenderObs>, String, String);

fn decode_with(bytes: &[u8], sched: &ChunkSchedule) -> Result<Decoded, String> {
    let image = crate::checks::common::load_chunked(bytes, sched, None, jxl_oxide::JxlThreadPool::none())?;
    let o = observe_full(&image);
    Ok((o.renders, o.exif, o.xml))
}

pub fn digest(sc: &Scenario) -> u64 {
    let mut h = crate::harness::Fnv::new();
    h.write(&sc.bytes);
    for s in &sc.schedules {
        for &n in &s.sizes {
            h.write_u64(n as u64);
        }
    }
    h.finish()
}

/// Shrinks the scenario while the same violation class persists.
pub fn minimise(sc: &Scenario, still: &dyn Fn(&Scenario) -> bool) -> Scenario {
    let mut best = sc.clone();
    // 1. keep a single schedule
    for i in 0..best.schedules.len() {
        let mut c = best.clone();
        c.schedules = vec![best.schedules[i].clone()];
        if still(&c) {
            best = c;
            break;
        }
    }
    // 2. drop boxes
    let mut i = 0;
    while i < best.spec.boxes.len() {
        let mut c = best.clone();
        c.spec.boxes.remove(i);
        if c.spec.ill == Ill::None {
            renumber(&mut c.spec);
        }
        let (bytes, map) = c.spec.encode(c.enc_seed);
        let total = bytes.len();
        c.bytes = bytes;
        c.map = map;
        // re-derive the schedule cuts clipped to the new length
        for s in &mut c.schedules {
            let cuts: Vec<usize> = s.cut_offsets().into_iter().filter(|&o| o < total).collect();
            *s = ChunkSchedule::from_cuts(s.kind, cuts, total);
        }
        if still(&c) {
            best = c;
        } else {
            i += 1;
        }
    }
    // 3. shrink payloads
    for i in 0..best.spec.boxes.len() {
        for keep in [0usize, 2, 8] {
            if best.spec.boxes[i].payload.len() > keep {
                let mut c = best.clone();
                c.spec.boxes[i].payload.truncate(keep);
                let (bytes, map) = c.spec.encode(c.enc_seed);
                let total = bytes.len();
                c.bytes = bytes;
                c.map = map;
                c.real_codestream = false;
                for s in &mut c.schedules {
                    let cuts: Vec<usize> = s.cut_offsets().into_iter().filter(|&o| o < total).collect();
                    *s = ChunkSchedule::from_cuts(s.kind, cuts, total);
                }
                if still(&c) {
                    best = c;
                    break;
                }
            }
        }
    }
    // 4. merge chunks
    if let Some(s) = best.schedules.first().cloned() {
        let mut cuts = s.cut_offsets();
        let total = best.bytes.len();
        let mut i = 0;
        while i < cuts.len() {
            let mut c2 = cuts.clone();
            c2.remove(i);
            let mut c = best.clone();
            c.schedules = vec![ChunkSchedule::from_cuts(s.kind, c2.clone(), total)];
            if still(&c) {
                cuts = c2;
                best = c;
            } else {
                i += 1;
            }
        }
    }
    best
}

/// Keeps a well-formed layout well-formed after boxes were removed.
fn renumber(spec: &mut ContainerSpec) {
    let n = spec.boxes.iter().filter(|b| matches!(b.kind, BoxKind::Jxlp { .. })).count();
    let mut k = 0u32;
    for b in spec.boxes.iter_mut() {
        if let BoxKind::Jxlp { index_word } = &mut b.kind {
            *index_word = k | if k as usize + 1 == n { 0x8000_0000 } else { 0 };
            k += 1;
        }
    }
    // a to-EOF box must stay last
    let len = spec.boxes.len();
    for (i, b) in spec.boxes.iter_mut().enumerate() {
        if b.size == SizeForm::ToEof && i + 1 != len {
            b.size = SizeForm::S32;
        }
    }
}
